//! C04 tie: verifier contract + raw-access footprint of the dispatch loop.
//!
//! Generates Function objects (compiler output of small programs, mutated), asks the real
//! verifier (through `VM::execute` with an instruction budget of 0: the only public path,
//! `ensure_function_verified`) and prints
//!   V \t <case> \t <function spec> \t accept|reject|gap:<child outcome>
//! then executes the accepted ones under a budget with the site log (hook H5) installed and prints
//!   X \t <case> \t <end class> \t <instructions> \t <offgrid instrs> \t <stale-len instrs> \t <unresolved>
//!   S \t <case> \t <k> \t <last> \t <ongrid> \t ip bl word base clen ctrue uplen regslen cachelen \t id:idx:len ...
//!   O \t <case> \t <k> \t <site id> \t <idx> \t <len> \t <tainted> \t <opcode> \t <clen> \t <ctrue> \t <ongrid>
//! Function spec (one line, recursive):  F nregs arity U<n> <L|P><idx>.. C<n> <consts..> W<n> <hex words..> N<n> <nested..>
//!   consts: n<idx> nested marker | s valid heap pointer | x invalid heap pointer | o anything else
#[cfg(vbxq_aelys_lang_verif)]
mod imp {
    use aelys_backend::Compiler;
    use aelys_bytecode::{BytecodeBuffer, Function, UpvalueDescriptor};
    use aelys_common::error::{AelysError, RuntimeErrorKind};
    use aelys_frontend::lexer::Lexer;
    use aelys_frontend::parser::Parser;
    use aelys_opt::Optimizer;
    use aelys_runtime::{GcRef, VM, Value, verif, verif_sites};
    use aelys_sema::TypeInference;
    use aelys_syntax::Source;
    use hxlib::runner::opt_level;
    use hxlib::*;

    const PROGRAMS: &[&str] = &[
        "let mut s = 0\nfor i in 0..6 { s = s + i }\nprintln(s)\n",
        "fn add(a, b) { return a + b }\nlet mut s = 0\nfor i in 0..4 { s = s + add(i, 2) }\nprintln(s)\n",
        "fn mk(n) { return fn(x) { return x + n } }\nlet f = mk(3)\nlet g = mk(4)\nprintln(f(1) + g(2))\n",
        "let v = Vec[]\nv.push(1)\nv.push(2)\nlet mut t = 0\nfor x in v { t = t + x }\nprintln(t)\nprintln(v.len())\n",
        "let a = \"ab\" + \"cd\"\nlet mut n = 0\nfor c in a { n = n + 1 }\nprintln(a)\nprintln(n)\n",
        "fn fact(n: int) -> int { if n <= 1 { return 1 }\n return n * fact(n - 1) }\nprintln(fact(5))\n",
        "let mut i = 0\nlet mut acc = 1\nwhile i < 5 { acc = acc * 2\n i = i + 1 }\nif acc > 10 { println(\"big\") } else { println(\"small\") }\n",
        "fn outer() { let mut c = 0\n let inc = fn() { c = c + 1\n return c }\n inc()\n return inc() }\nprintln(outer())\n",
        "let x = 7\nlet y = x & 3 | 8\nlet z = (y << 2) ^ 5\nprintln(z)\nprintln(-x)\nprintln(not (x > 3))\n",
        "fn apply(f, v) { return f(v) }\nfn dbl(x) { return x * 2 }\nprintln(apply(dbl, 4))\nprintln(apply(fn(q) { return q - 1 }, 4))\n",
        "let arr = Array[1, 2, 3]\nlet mut s = 0\nfor i in 0..3 { s = s + arr[i] }\narr[1] = 9\nprintln(s + arr[1])\n",
        "let f = 1.5\nlet g = f * 2.0 + 0.25\nif g >= 3.0 { println(g) }\nlet b = true\nif b and g < 10.0 { println(\"ok\") }\n",
        // call-site cache histories: a global closure with more constants than its caller, called through one site:
        // CallGlobal (slow path, patches to Mono) / global store (cache flush) / miss / hit
        "fn make_greeter() { let mut n = 0\n return fn() { n = n + 1\n let a = \"alpha\"\n let b = \"beta\"\n let c = \"gamma\"\n let d = \"delta\"\n let h = \"theta\"\n println(h)\n return n } }\nlet greet = make_greeter()\nlet mut flag = 0\nfn run() { greet() }\nrun()\nflag = 1\nrun()\nrun()\n",
        "fn mk(k) { return fn(x) { let a = \"aa\"\n let b = \"bb\"\n let c = \"cc\"\n println(a + b + c)\n return x + k } }\nlet mut g = mk(1)\nlet mut t = 0\nfn run(v) { return g(v) }\nt = t + run(1)\nt = t + run(2)\ng = mk(2)\nt = t + run(3)\nt = t + run(4)\nprintln(t)\n",
        "fn mk(k) { return fn(x) { let a = \"s1\"\n let b = \"s2\"\n println(a + b)\n return x + k } }\nlet mut g = mk(0)\nlet mut acc = 0\nfn call(v) { return g(v) }\nfor i in 0..5 { acc = acc + call(i)\n acc = acc + call(i)\n g = mk(i) }\nprintln(acc)\n",
        "fn outer() { let f = fn(n) { return n + 1 }\n let g = fn(x) { let y = f(x)\n return f(y) }\n return g(1) + g(2) }\nprintln(outer())\nfn fact() { let go = fn(n, acc) { if n <= 1 { return acc }\n return acc }\n let h = fn(n) { return go(n, 1) }\n return h(4) }\nprintln(fact())\n",
        "fn mk(k) { return fn(x) { let a = \"t1\"\n let b = \"t2\"\n let c = \"t3\"\n println(a + b + c)\n return x + k } }\nlet mut g = mk(0)\nlet mut acc = 0\nfn call(v) { return g(v) }\nfor i in 0..8 { if i % 3 == 0 { acc = acc + call(i) }\n g = mk(i) }\nacc = acc + call(9)\nprintln(acc)\n",
        "fn mk(k) { return fn(x) { let a = \"u1\"\n let b = \"u2\"\n println(a + b)\n return x + k } }\nlet mut g = mk(0)\nlet mut acc = 0\nfn call(v) { return g(v) }\nacc = acc + call(0)\nfor r in 1..6 { for j in 0..r { g = mk(j) }\n acc = acc + call(r) }\nprintln(acc)\n",
        "fn plain(x) { let s = \"p1\" + \"p2\"\n println(s)\n return x + 1 }\nfn mk() { let z = 5\n return fn(x) { let s = \"c1\" + \"c2\" + \"c3\"\n println(s)\n return x + z } }\nlet mut h = plain\nlet mut u = 0\nfn go(v) { return h(v) }\nu = go(1)\nu = go(2)\nh = mk()\nu = go(3)\nu = go(4)\nh = plain\nu = go(5)\nu = go(6)\nprintln(u)\n",
    ];

    #[derive(Clone, Debug)]
    pub struct Case {
        pub tag: String,
        pub f: Function,
        /// global slot values to pre-set by index are not modelled; natives come from the VM
        pub _unused: (),
    }

    pub fn compile(vm: &mut VM, src: &str, opt: u32) -> Option<Function> {
        let s = Source::new("<c04>", src);
        let tokens = Lexer::with_source(s.clone()).scan().ok()?;
        let stmts = Parser::new(tokens, s.clone()).parse().ok()?;
        let mut known = vm.repl_known_globals().clone();
        for b in ["alloc", "free", "load", "store", "type"] {
            known.insert(b.to_string());
        }
        let typed = TypeInference::infer_program_with_imports(stmts, s.clone(), vm.repl_module_aliases().clone(), known.clone()).ok()?;
        let mut optimizer = Optimizer::new(opt_level(opt));
        let typed = optimizer.optimize(typed);
        let compiler = Compiler::with_modules_and_globals(
            None,
            s.clone(),
            vm.repl_module_aliases().clone(),
            known,
            vm.repl_known_native_globals().clone(),
            vm.repl_symbol_origins().clone(),
            vm.global_mutability().clone(),
        );
        let (mut function, mut heap, new_globals) = compiler.compile_typed(&typed).ok()?;
        vm.update_global_mutability(new_globals);
        let remap = vm.merge_heap(&mut heap).ok()?;
        function.remap_constants(&remap);
        Some(function)
    }

    /// fresh buffers everywhere (nested functions share their Arc buffer with clones otherwise)
    pub fn deep(f: &Function) -> Function {
        let mut g = f.clone();
        g.bytecode = BytecodeBuffer::from_vec(f.bytecode.as_slice().to_vec());
        g.nested_functions = f.nested_functions.iter().map(deep).collect();
        g
    }
    fn set_code(f: &mut Function, code: Vec<u32>) {
        f.bytecode = BytecodeBuffer::from_vec(code);
    }
    fn code(f: &Function) -> Vec<u32> {
        f.bytecode.as_slice().to_vec()
    }
    fn is3(op: u32) -> bool {
        op == 77 || op == 78 || op == 104
    }
    fn grid(c: &[u32]) -> Vec<usize> {
        let mut g = Vec::new();
        let mut i = 0;
        while i < c.len() {
            g.push(i);
            i += if is3(c[i] >> 24) { 3 } else { 1 };
        }
        g
    }
    fn ins(op: u32, a: u32, b: u32, c: u32) -> u32 {
        (op << 24) | ((a & 255) << 16) | ((b & 255) << 8) | (c & 255)
    }
    fn ins_imm(op: u32, a: u32, imm: i32) -> u32 {
        (op << 24) | ((a & 255) << 16) | ((imm as u32) & 0xFFFF)
    }
    const JUMPS: [u32; 9] = [18, 19, 20, 40, 41, 48, 177, 178, 179];

    pub fn spec(f: &Function, vm: &VM) -> String {
        let mut s = format!("F {} {} U{}", f.num_registers, f.arity, f.upvalue_descriptors.len());
        for d in &f.upvalue_descriptors {
            s.push_str(&format!(" {}{}", if d.is_local { "L" } else { "P" }, d.index));
        }
        s.push_str(&format!(" C{}", f.constants.len()));
        for c in &f.constants {
            if let Some(i) = c.as_nested_fn_marker() {
                s.push_str(&format!(" n{}", i));
            } else if let Some(p) = c.as_ptr() {
                s.push_str(if vm.heap().get(GcRef::new(p)).is_some() { " s" } else { " x" });
            } else {
                s.push_str(" o");
            }
        }
        let c = f.bytecode.as_slice();
        s.push_str(&format!(" W{}", c.len()));
        for w in c {
            s.push_str(&format!(" {:x}", w));
        }
        s.push_str(&format!(" N{}", f.nested_functions.len()));
        for n in &f.nested_functions {
            s.push(' ');
            s.push_str(&spec(n, vm));
        }
        s
    }

    /// inverse of `spec` (valid pointers become a fresh interned string, invalid ones an index
    /// far beyond the heap, "o" an int)
    pub fn parse_spec(toks: &mut std::slice::Iter<'_, &str>, vm: &mut VM) -> Option<Function> {
        if *toks.next()? != "F" {
            return None;
        }
        let nregs: u8 = toks.next()?.parse().ok()?;
        let arity: u8 = toks.next()?.parse().ok()?;
        let mut f = Function::new(Some("c04".into()), arity);
        let nu: usize = toks.next()?.strip_prefix('U')?.parse().ok()?;
        for _ in 0..nu {
            let t = toks.next()?;
            f.upvalue_descriptors.push(UpvalueDescriptor { is_local: t.starts_with('L'), index: t[1..].parse().ok()? });
        }
        let nc: usize = toks.next()?.strip_prefix('C')?.parse().ok()?;
        for k in 0..nc {
            let t = toks.next()?;
            let v = match t.as_bytes()[0] {
                b'n' => Value::nested_fn_marker(t[1..].parse().ok()?),
                b's' => Value::ptr(vm.intern_string(&format!("c04s{}", k)).ok()?.index()),
                b'x' => Value::ptr(0x7fff_fff0),
                _ => Value::int(k as i64),
            };
            f.constants.push(v);
        }
        let nw: usize = toks.next()?.strip_prefix('W')?.parse().ok()?;
        let mut c = Vec::new();
        for _ in 0..nw {
            c.push(u32::from_str_radix(toks.next()?, 16).ok()?);
        }
        set_code(&mut f, c);
        let nn: usize = toks.next()?.strip_prefix('N')?.parse().ok()?;
        for _ in 0..nn {
            f.nested_functions.push(parse_spec(toks, vm)?);
        }
        f.num_registers = nregs;
        Some(f)
    }

    fn gap_on_grid(f: &Function, lo: u32, hi: u32) -> bool {
        let c = f.bytecode.as_slice();
        grid(c).iter().any(|&i| (c[i] >> 24) >= lo && (c[i] >> 24) <= hi) || f.nested_functions.iter().any(|n| gap_on_grid(n, lo, hi))
    }

    /// accept / reject through the only public path: execute with budget 0
    pub fn verify(vm: &mut VM, f: &Function) -> &'static str {
        let r = vm.alloc_function(deep(f));
        let fr = match r {
            Ok(x) => x,
            Err(_) => return "alloc-error",
        };
        vm.clear_frames();
        verif::budget_set(0);
        let res = vm.execute(fr);
        verif::budget_set(u64::MAX);
        vm.clear_frames();
        match res {
            Ok(_) => "accept",
            Err(e) => match &e.kind {
                RuntimeErrorKind::InvalidBytecode(m) if m.contains("verif instruction budget") => "accept",
                RuntimeErrorKind::InvalidBytecode(_) => "reject",
                _ => "other-error",
            },
        }
    }

    // ---------------------------------------------------------------- mutations
    fn pick_fn<'a>(f: &'a mut Function, rng: &mut Rng) -> &'a mut Function {
        if !f.nested_functions.is_empty() && rng.chance(1, 2) {
            let k = rng.below(f.nested_functions.len() as u64) as usize;
            pick_fn(&mut f.nested_functions[k], rng)
        } else {
            f
        }
    }

    fn wrap(inner: Function, extra_consts: usize, via: u32) -> Function {
        // [MakeClosure r0 k0 nup] [call r1 <- r0()] [Return0]
        let mut w = Function::new(Some("wrap".into()), 0);
        let nup = inner.upvalue_descriptors.len() as u32;
        w.constants.push(Value::nested_fn_marker(0));
        for k in 0..extra_consts {
            w.constants.push(Value::int(k as i64));
        }
        // every captured upvalue of the inner function must exist in the wrapper: make them locals
        let mut inner = inner;
        for (k, d) in inner.upvalue_descriptors.iter_mut().enumerate() {
            d.is_local = true;
            d.index = (2 + k.min(200)) as u8;
        }
        w.nested_functions.push(inner);
        let callop = if via == 79 { 79 } else { 21 };
        set_code(&mut w, vec![ins(35, 0, 0, nup), ins(callop, 1, 0, 0), ins(23, 0, 0, 0)]);
        w.num_registers = 210;
        w
    }

    pub fn mutate(base: &Function, rng: &mut Rng, gap: (u32, u32)) -> (String, Function) {
        let mut f = deep(base);
        let kind = rng.below(20);
        let tag;
        match kind {
            0 => tag = "asis".to_string(),
            1 | 2 => {
                // retarget a jump to any word index (also one past the end and out of range)
                let g = pick_fn(&mut f, rng);
                let mut c = code(g);
                let js: Vec<usize> = grid(&c).into_iter().filter(|&i| JUMPS.contains(&(c[i] >> 24))).collect();
                if js.is_empty() || c.is_empty() {
                    tag = "retarget-none".into();
                } else {
                    let j = *rng.pick(&js);
                    let t = rng.range_i64(-1, c.len() as i64 + 1);
                    let imm = t - (j as i64 + 1);
                    c[j] = (c[j] & 0xFFFF_0000) | ((imm as i32 as u32) & 0xFFFF);
                    set_code(g, c);
                    tag = format!("retarget:{}->{}", j, t);
                }
            }
            3 | 4 | 5 => {
                // rewrite the opcode byte of a cache word and make it reachable by a jump at word p
                let g = pick_fn(&mut f, rng);
                let mut c = code(g);
                let calls: Vec<usize> = grid(&c).into_iter().filter(|&i| is3(c[i] >> 24) && i + 2 < c.len()).collect();
                if calls.is_empty() {
                    tag = "cacheword-none".into();
                } else {
                    let i = *rng.pick(&calls);
                    let which = 1 + rng.below(2) as usize;
                    let ops = [77u32, 78, 104, 2, 24, 25, 35, 36, 37, 80, 81, 18, 0, 22, 40, 134];
                    let op = if rng.chance(1, 8) { rng.below(180) as u32 } else { *rng.pick(&ops) };
                    let lowbits = match rng.below(3) { 0 => c[i + which] & 0x00FF_FFFF, 1 => rng.next_u64() as u32 & 0x00FF_FFFF, _ => 0x0000_0505 };
                    c[i + which] = (op << 24) | lowbits;
                    let mut t = format!("cacheword:{}+{}:op{}", i, which, op);
                    if rng.chance(3, 4) {
                        // a jump into it, from a word that is certainly executed or from a random grid word
                        let gr = grid(&c);
                        let p = if rng.chance(1, 2) { 0 } else { *rng.pick(&gr) };
                        if !is3(c[p] >> 24) && p != i {
                            let tgt = (i + which) as i64;
                            c[p] = ins_imm(18, 0, (tgt - (p as i64 + 1)) as i32);
                            t.push_str(&format!(":jump@{}", p));
                        }
                    }
                    set_code(g, c);
                    tag = t;
                }
            }
            6 => {
                let g = pick_fn(&mut f, rng);
                let n = g.num_registers as i64;
                let choices = [0, n - 1, n - 2, n + 1, 255, rng.below(256) as i64, n / 2];
                g.num_registers = (*rng.pick(&choices)).clamp(0, 255) as u8;
                tag = format!("nregs:{}->{}", n, g.num_registers);
            }
            7 => {
                let g = pick_fn(&mut f, rng);
                let mut c = code(g);
                let k = rng.below(c.len() as u64 + 1) as usize;
                c.truncate(k);
                set_code(g, c);
                tag = format!("truncate:{}", k);
            }
            8 => {
                let g = pick_fn(&mut f, rng);
                let mut c = code(g);
                let n = 1 + rng.below(4);
                for _ in 0..n {
                    let w = match rng.below(4) {
                        0 => rng.next_u64() as u32,
                        1 => ins(77, rng.below(4) as u32, rng.below(4) as u32, rng.below(3) as u32),
                        2 => ins(rng.below(180) as u32, rng.below(8) as u32, rng.below(8) as u32, rng.below(8) as u32),
                        _ => ins(23, 0, 0, 0),
                    };
                    c.push(w);
                }
                set_code(g, c);
                tag = format!("extend:{}", n);
            }
            9 | 10 => {
                // operand / opcode rewrite of one word
                let g = pick_fn(&mut f, rng);
                let mut c = code(g);
                if c.is_empty() {
                    tag = "rewrite-none".into();
                } else {
                    let i = rng.below(c.len() as u64) as usize;
                    let n = g.num_registers as u32;
                    let vals = [0u32, 1, n.wrapping_sub(1), n, n + 1, 255, g.constants.len() as u32, rng.below(256) as u32];
                    match rng.below(5) {
                        0 => c[i] = (c[i] & 0xFF00_FFFF) | ((*rng.pick(&vals) & 255) << 16),
                        1 => c[i] = (c[i] & 0xFFFF_00FF) | ((*rng.pick(&vals) & 255) << 8),
                        2 => c[i] = (c[i] & 0xFFFF_FF00) | (*rng.pick(&vals) & 255),
                        3 => c[i] = (c[i] & 0x00FF_FFFF) | ((rng.below(182) as u32) << 24),
                        _ => c[i] = rng.next_u64() as u32,
                    }
                    set_code(g, c);
                    tag = format!("rewrite:{}", i);
                }
            }
            11 => {
                let g = pick_fn(&mut f, rng);
                match rng.below(4) {
                    0 => {
                        g.constants.pop();
                    }
                    1 => {
                        if !g.constants.is_empty() {
                            let k = rng.below(g.constants.len() as u64) as usize;
                            g.constants[k] = Value::ptr(0x7fff_fff0);
                        }
                    }
                    2 => {
                        let k = g.nested_functions.len() + rng.below(2) as usize;
                        g.constants.push(Value::nested_fn_marker(k));
                    }
                    _ => {
                        g.upvalue_descriptors.push(UpvalueDescriptor { is_local: true, index: 0 });
                    }
                }
                tag = "consts".into();
            }
            12 => {
                // nest: wrap d times; sometimes beyond the verifier's depth limit
                let d = match rng.below(6) { 0 => 62 + rng.below(6) as usize, _ => 1 + rng.below(3) as usize };
                let via = if rng.chance(1, 3) { 79 } else { 21 };
                let extra = rng.below(9) as usize;
                for _ in 0..d {
                    f = wrap(f, extra, via);
                }
                tag = format!("nest:{}:via{}:extra{}", d, via, extra);
            }
            13 => {
                // global-name operand: imm16 with a small low byte (the verifier looks at byte b only)
                let g = pick_fn(&mut f, rng);
                let mut c = code(g);
                let gr = grid(&c);
                if gr.is_empty() {
                    tag = "getglobal-none".into();
                } else {
                    let p = *rng.pick(&gr);
                    if !is3(c[p] >> 24) {
                        c[p] = ins_imm(if rng.chance(1, 2) { 24 } else { 25 }, 0, rng.below(12) as i32);
                    }
                    set_code(g, c);
                    let extra = 2 + rng.below(10) as usize;
                    f = wrap(f, extra, if rng.chance(1, 2) { 79 } else { 21 });
                    tag = format!("getglobal-imm:{}:extra{}", p, extra);
                }
            }
            14 => {
                // pure random short stream
                let mut g = Function::new(Some("rnd".into()), 0);
                let n = rng.below(7) as usize;
                let mut c = Vec::new();
                for _ in 0..n {
                    c.push(match rng.below(3) {
                        0 => rng.next_u64() as u32,
                        _ => ins(rng.below(181) as u32, rng.below(6) as u32, rng.below(6) as u32, rng.below(6) as u32),
                    });
                }
                set_code(&mut g, c);
                g.num_registers = rng.below(8) as u8;
                for k in 0..rng.below(3) {
                    g.constants.push(Value::int(k as i64));
                }
                f = g;
                tag = "random".into();
            }
            18 | 19 => {
                // a call site turned into CallGlobalMono with hand-written cache words: any callee pointer, slot ids
                // around the current length of the call-site cache (the words are not verified, the loop guards them)
                let g = pick_fn(&mut f, rng);
                let mut c = code(g);
                let calls: Vec<usize> = grid(&c).into_iter().filter(|&i| is3(c[i] >> 24) && i + 2 < c.len()).collect();
                if calls.is_empty() {
                    tag = "monowords-none".into();
                } else {
                    let i = *rng.pick(&calls);
                    let slots = [0u32, 1, 2, 3, 4, 5, 8, 63, 64, 65, 4095, 4096, 65535, rng.below(16) as u32];
                    let slot = *rng.pick(&slots);
                    let ptrs = [1u64, 2, 40, 100, 0xFFFF_FFFF, 0xFFFF_FFFF_FFFF, rng.below(300)];
                    let ptr = *rng.pick(&ptrs);
                    let op = if rng.chance(3, 4) { 78 } else { 104 };
                    c[i] = (c[i] & 0x00FF_FFFF) | (op << 24);
                    c[i + 1] = (ptr & 0xFFFF_FFFF) as u32;
                    c[i + 2] = ((((ptr >> 32) as u32) & 0xFFFF) << 16) | (slot & 0xFFFF);
                    set_code(g, c);
                    tag = format!("monowords:{}:op{}:ptr{}:slot{}", i, op, ptr, slot);
                }
            }
            16 | 17 => {
                // nested function whose upvalue descriptors sit at / around the end of the enclosing frame's
                // upvalue array (the verifier only counts descriptors): instantiated from a plain function
                // frame (no upvalues, null upvalues_ptr) or from a closure frame with k upvalues
                let plain = rng.chance(1, 2);
                let k = if plain { 0 } else { 1 + rng.below(3) as usize };
                let nd = 1 + rng.below(3) as usize;
                let mut inner = Function::new(Some("inner".into()), 0);
                inner.num_registers = 1;
                let mut desc = String::new();
                for _ in 0..nd {
                    let cands = [0i64, k as i64 - 1, k as i64, k as i64 + 1, 255, rng.below(256) as i64];
                    let index = (*rng.pick(&cands)).clamp(0, 255) as u8;
                    let is_local = rng.chance(1, 3);
                    desc.push_str(&format!("{}{}", if is_local { "L" } else { "P" }, index));
                    inner.upvalue_descriptors.push(UpvalueDescriptor { is_local, index });
                }
                set_code(&mut inner, vec![ins(36, 0, 0, 0), ins(23, 0, 0, 0)]);
                let mut holder = Function::new(Some("holder".into()), 0);
                holder.num_registers = 8;
                holder.constants.push(Value::nested_fn_marker(0));
                holder.nested_functions.push(inner);
                let mut hc = vec![ins(35, 0, 0, nd as u32)];
                if rng.chance(1, 2) {
                    hc.push(ins(21, 1, 0, 0));
                }
                hc.push(ins(23, 0, 0, 0));
                set_code(&mut holder, hc);
                if plain {
                    f = holder;
                } else {
                    for j in 0..k {
                        holder.upvalue_descriptors.push(UpvalueDescriptor { is_local: true, index: (2 + j) as u8 });
                    }
                    let mut main = Function::new(Some("main".into()), 0);
                    main.num_registers = 8;
                    main.constants.push(Value::nested_fn_marker(0));
                    main.nested_functions.push(holder);
                    set_code(&mut main, vec![ins(35, 0, 0, k as u32), ins(21, 1, 0, 0), ins(23, 0, 0, 0)]);
                    f = main;
                }
                tag = format!("upvaldesc:{}:k{}:{}", if plain { "plain" } else { "closure" }, k, desc);
            }
            _ => {
                // an opcode byte from the numbering gap on the grid (known class from_u8_gap)
                let g = pick_fn(&mut f, rng);
                let mut c = code(g);
                let gr = grid(&c);
                if gr.is_empty() || gap.0 > gap.1 {
                    tag = "gap-none".into();
                } else {
                    let p = *rng.pick(&gr);
                    if !is3(c[p] >> 24) {
                        c[p] = (c[p] & 0x00FF_FFFF) | ((gap.0 + rng.below((gap.1 - gap.0 + 1) as u64) as u32) << 24);
                    }
                    set_code(g, c);
                    tag = format!("gap:{}", p);
                }
            }
        }
        (tag, f)
    }

    // ---------------------------------------------------------------- execution with the site log
    pub struct Instr {
        pub ongrid: u64,
        pub snap: [u64; 9], // ip bl word base clen ctrue uplen regslen cachelen
        pub acc: Vec<(u32, u64, u64)>,
        pub complete: bool,
        /// hook b309b16 (optional): the running frame's record matches its function object / its upvalue vector has a live owner
        pub frame_ok: bool,
        pub upowner_ok: bool,
        /// optional hook: the loop's cached locals are the running frame's record
        pub locals_ok: bool,
    }

    pub fn split(log: &[(u32, u64, u64)]) -> Vec<Instr> {
        let mut out: Vec<Instr> = Vec::new();
        let mut i = 0;
        while i < log.len() {
            let (id, a, _b) = log[i];
            if id == verif_sites::SNAP_GRID {
                let mut ins = Instr { ongrid: a, snap: [0; 9], acc: Vec::new(), complete: false, frame_ok: true, upowner_ok: true, locals_ok: true };
                i += 1;
                // FETCH
                if i < log.len() && log[i].0 == verif_sites::FETCH {
                    ins.snap[0] = log[i].1;
                    ins.snap[1] = log[i].2;
                    ins.acc.push(log[i]);
                    i += 1;
                }
                if i + 3 < log.len() + 0 && log[i].0 == verif_sites::SNAP_INSTR {
                    ins.snap[2] = log[i].1;
                    ins.snap[3] = log[i].2;
                    ins.snap[4] = log[i + 1].1;
                    ins.snap[5] = log[i + 1].2;
                    ins.snap[6] = log[i + 2].1;
                    ins.snap[7] = log[i + 2].2;
                    ins.snap[8] = log[i + 3].2;
                    ins.complete = true;
                    i += 4;
                }
                while i < log.len() && log[i].0 != verif_sites::SNAP_GRID {
                    match log[i].0 {
                        105 => ins.frame_ok = log[i].1 == 1,
                        106 => ins.upowner_ok = log[i].1 == 1,
                        107 => ins.locals_ok = log[i].1 == 1,
                        id if id >= 100 => {}
                        _ => ins.acc.push(log[i]),
                    }
                    i += 1;
                }
                out.push(ins);
            } else {
                i += 1;
            }
        }
        out
    }

    pub fn execute_logged(vm: &mut VM, f: &Function, budget: u64, gc: u8) -> (String, Vec<(u32, u64, u64)>) {
        let fr = match vm.alloc_function(deep(f)) {
            Ok(x) => x,
            Err(_) => return ("alloc-error".into(), Vec::new()),
        };
        vm.clear_frames();
        verif::sink_install();
        verif::gc_mode_set(gc, 0);
        verif::budget_set(budget);
        let sites = !flag("--no-sites");      // sanitizer leg: perform every raw access for real, nothing is refused
        if sites {
            verif::site_log_install();
            verif_sites::enable(true);
        }
        let r = guarded(std::panic::AssertUnwindSafe(|| vm.execute(fr)));
        verif_sites::enable(false);
        let log = verif::site_log_take();
        verif::gc_mode_set(0, 0);
        verif::budget_set(u64::MAX);
        let _ = verif::sink_take();
        vm.clear_frames();
        let class = match r {
            Ok(Ok(_)) => "ok".to_string(),
            Ok(Err(e)) => match &e.kind {
                RuntimeErrorKind::InvalidBytecode(m) if m.contains("verif site oob") => "site-oob".to_string(),
                k => format!("runtime:{}", hxlib::runner::kind_name(k)),
            },
            Err(p) => {
                if p.contains("type confusion") {
                    "panic:type-confusion-debug-assert".to_string()
                } else {
                    format!("panic:{}", hxlib::runner::esc(&p.chars().take(80).collect::<String>()))
                }
            }
        };
        (class, log)
    }

    thread_local! {
        static HIST_OP: std::cell::RefCell<std::collections::BTreeMap<u64, u64>> = const { std::cell::RefCell::new(std::collections::BTreeMap::new()) };
        static HIST_SITE: std::cell::RefCell<std::collections::BTreeMap<u32, u64>> = const { std::cell::RefCell::new(std::collections::BTreeMap::new()) };
    }
    pub fn print_hist() {
        HIST_OP.with(|h| {
            let v: Vec<String> = h.borrow().iter().map(|(k, n)| format!("{}:{}", k, n)).collect();
            println!("HOP\t{}", v.join(" "));
        });
        HIST_SITE.with(|h| {
            let v: Vec<String> = h.borrow().iter().map(|(k, n)| format!("{}:{}", k, n)).collect();
            println!("HSITE\t{}", v.join(" "));
        });
    }

    pub fn report(case: &str, class: &str, log: &[(u32, u64, u64)], nfirst: usize) {
        let ins = split(log);
        HIST_OP.with(|h| {
            let mut h = h.borrow_mut();
            for it in ins.iter().filter(|i| i.complete) {
                *h.entry((it.snap[2] >> 24) & 255).or_insert(0) += 1;
            }
        });
        HIST_SITE.with(|h| {
            let mut h = h.borrow_mut();
            for it in &ins {
                for a in &it.acc {
                    *h.entry(a.0).or_insert(0) += 1;
                }
            }
        });
        let mut tainted = false;
        let (mut offgrid, mut stale, mut unresolved) = (0u64, 0u64, 0u64);
        let (mut badframe, mut badup, mut badlocals) = (0u64, 0u64, 0u64);
        let n = ins.len();
        let mut oobs = Vec::new();
        for (k, it) in ins.iter().enumerate() {
            if it.ongrid == 0 {
                tainted = true;
                offgrid += 1;
            }
            if !it.frame_ok {
                badframe += 1;
            }
            if !it.upowner_ok {
                badup += 1;
            }
            if !it.locals_ok {
                badlocals += 1;
            }
            if it.complete {
                if it.snap[5] == u64::MAX {
                    unresolved += 1;
                } else if it.snap[4] != it.snap[5] {
                    stale += 1;
                }
            }
            for &(id, idx, len) in &it.acc {
                if id < 100 && idx >= len {
                    oobs.push(format!("O\t{}\t{}\t{}\t{}\t{}\t{}\t{}\t{}\t{}\t{}", case, k, id, idx, len, tainted as u8,
                        (it.snap[2] >> 24) & 255, it.snap[4], it.snap[5], it.ongrid));
                }
            }
        }
        println!("X\t{}\t{}\t{}\t{}\t{}\t{}\t{}\t{}\t{}", case, class, n, offgrid, stale, unresolved, badframe, badup, badlocals);
        for (k, it) in ins.iter().enumerate() {
            if !(k < nfirst || k + 2 >= n) || !it.complete {
                continue;
            }
            let last = k + 1 == n && class != "ok";
            let acc: Vec<String> = it.acc.iter().map(|(id, i, l)| format!("{}:{}:{}", id, i, l)).collect();
            println!("S\t{}\t{}\t{}\t{}\t{} {} {} {} {} {} {} {} {}\t{}", case, k, last as u8, it.ongrid,
                it.snap[0], it.snap[1], it.snap[2], it.snap[3], it.snap[4], it.snap[5], it.snap[6], it.snap[7], it.snap[8], acc.join(" "));
        }
        for o in oobs {
            println!("{}", o);
        }
    }

    /// one instruction of every declared opcode, run on registers preloaded with ints / floats / an array / a vec / a string
    pub fn sweep_fn(vm: &mut VM, op: u32, variant: u32, abc: (u32, u32, u32)) -> Function {
        let mut f = Function::new(Some("sweep".into()), 0);
        f.num_registers = 8;
        f.constants.push(Value::float(1.5));
        f.constants.push(Value::float(2.5));
        let sref = vm.intern_string("h\u{e9}llo").map(|r| r.index()).unwrap_or(0);
        f.constants.push(Value::ptr(sref));
        let mut c = Vec::new();
        match variant {
            0 => {
                for (r, v) in [3, 2, 1, 0, 5, 4].iter().enumerate() {
                    c.push(ins_imm(1, r as u32, *v));
                }
            }
            1 => {
                for r in 0..6u32 {
                    c.push(ins_imm(2, r, (r % 2) as i32));
                }
            }
            2 => {
                c.push(ins_imm(1, 0, 3));
                c.push(ins(130, 1, 0, 0)); // r1 = Array<int>(r0)
                c.push(ins_imm(1, 2, 1));
                c.push(ins_imm(1, 3, 7));
                c.push(ins_imm(1, 4, 0));
                c.push(ins(130, 5, 0, 0));
            }
            3 => {
                c.push(ins(148, 1, 0, 0)); // r1 = Vec<int>
                c.push(ins_imm(1, 3, 7));
                c.push(ins(153, 1, 3, 0)); // push r3
                c.push(ins_imm(1, 2, 0));
                c.push(ins_imm(1, 4, 0));
                c.push(ins(148, 5, 0, 0));
                c.push(ins(153, 5, 3, 0));
            }
            _ => {
                c.push(ins_imm(2, 1, 2));
                c.push(ins_imm(2, 5, 2));
                c.push(ins_imm(1, 2, 0));
                c.push(ins_imm(1, 3, 0));
                c.push(ins_imm(1, 4, 0));
            }
        }
        c.push(ins(op, abc.0, abc.1, abc.2));
        if is3(op) {
            c.push(0);
            c.push(0);
        }
        c.push(ins(23, 0, 0, 0));
        set_code(&mut f, c);
        f
    }

    /// One CallGlobal site, global 0 bound to callee A, called, unbound through a non-object value (or rebound directly),
    /// garbage, bound to a fresh callee B, called again through the same site.  The register that held A is cleared, so A
    /// is garbage at the next collection and B can land in A's heap slot.
    #[allow(clippy::too_many_arguments)]
    pub fn rebind_fn(unbind: u32, closure: bool, big_alloc: bool, a_consts: usize, b_consts: usize, rounds: u32) -> Function {
        let mk = |name: &str, nconsts: usize, ret: i32| {
            let mut f = Function::new(Some(name.into()), 0);
            f.num_registers = 2;
            for k in 0..nconsts {
                f.constants.push(Value::int(7000 + k as i64));
            }
            let first = if nconsts > 0 { ins_imm(2, 0, (nconsts - 1) as i32) } else { ins_imm(1, 0, ret) };
            set_code(&mut f, vec![first, ins(22, 0, 0, 0)]);
            f
        };
        let mut m = Function::new(Some("main".into()), 0);
        m.num_registers = 10;
        m.constants = vec![Value::nested_fn_marker(0), Value::nested_fn_marker(1), Value::int(140_000), Value::int(1000)];
        m.nested_functions = vec![mk("first", a_consts, 111), mk("second", b_consts, 222)];
        let load = |r: u32, k: u32| if closure { ins(35, r, k, 0) } else { ins_imm(2, r, k as i32) };
        let mut c = vec![
            ins_imm(1, 3, 0),                 // 0  r3 = pass counter
            load(0, 0),                       // 1  r0 = A
            ins_imm(76, 0, 0),                // 2  L0: global[0] = r0
            ins(3, 0, 0, 0),                  // 3  r0 = null (drop the reference)
            ins(77, 1, 0, 0), 0, 0,           // 4  r1 = global[0]()
            ins(42, 3, 3, 1),                 // 7  r3 += 1
            ins_imm(1, 8, rounds as i32),     // 8
            ins(13, 9, 3, 8),                 // 9  r9 = r3 < rounds   (Lt)
            ins_imm(20, 9, 7),                // 10 JumpIfNot r9 -> 18
        ];
        c.push(match unbind { 0 => ins(3, 2, 0, 0), 1 => ins_imm(1, 2, 5), 2 => ins(4, 2, 1, 0), _ => ins(0, 2, 2, 0) }); // 11 r2 = null / int / bool / (keep)
        c.push(if unbind < 3 { ins_imm(76, 2, 0) } else { ins(0, 2, 2, 0) });                                                // 12 global[0] = r2
        c.push(if big_alloc { ins_imm(2, 4, 2) } else { ins_imm(1, 4, 3) });                                                  // 13
        c.push(ins(130, 5, 4, 0));                                                                                            // 14 garbage array
        c.push(ins(3, 5, 0, 0));                                                                                              // 15
        c.push(load(0, 1));                                                                                                   // 16 r0 = B
        c.push(ins_imm(18, 0, 2 - 18));                                                                                       // 17 -> L0
        c.push(ins(22, 1, 0, 0));                                                                                             // 18 return r1
        set_code(&mut m, c);
        m
    }

    fn new_vm() -> VM {
        aelys_driver::new_vm_with_config(Default::default(), Vec::new()).ok().expect("vm")
    }

    fn child_verify(specline: &str) -> String {
        let exe = std::env::current_exe().expect("exe");
        match std::process::Command::new(exe).arg("--one-verify").arg(specline).output() {
            Ok(o) => {
                let out = String::from_utf8_lossy(&o.stdout).trim().to_string();
                if o.status.success() && (out == "accept" || out == "reject") {
                    out
                } else {
                    "crash".to_string()
                }
            }
            Err(_) => "spawn-error".to_string(),
        }
    }

    pub fn run_case(case: &str, vm: &mut VM, f: &Function, gap: (u32, u32), budget: u64, nfirst: usize, tag: &str) {
        run_case_gc(case, vm, f, gap, budget, nfirst, tag, 0)
    }

    /// the same function after a trip through the .avbc writer/reader or the disassembler/assembler, in a fresh VM
    pub fn reload(vm: &VM, f: &Function, how: u64, rng: &mut Rng) -> Option<(VM, Function, &'static str)> {
        let r = guarded(std::panic::AssertUnwindSafe(|| {
            if how == 0 {
                let mut bytes = aelys_bytecode::asm::serialize(f, vm.heap());
                let mut label = "avbc";
                if rng.chance(1, 4) && !bytes.is_empty() {
                    let k = rng.below(bytes.len() as u64) as usize;
                    bytes[k] ^= 1 << rng.below(8);
                    label = "avbc-bitflip";
                }
                aelys_bytecode::asm::deserialize(&bytes).ok().map(|(g, h)| (g, h, label))
            } else {
                let text = aelys_bytecode::asm::disassemble_to_string(f, Some(vm.heap()));
                aelys_bytecode::asm::assemble_from_string(&text).ok().and_then(|(fs, h)| fs.into_iter().next().map(|g| (g, h, "aasm")))
            }
        }));
        let (mut g, mut h, label) = r.ok()??;
        let mut vm2 = new_vm();
        let remap = vm2.merge_heap(&mut h).ok()?;
        g.remap_constants(&remap);
        Some((vm2, g, label))
    }

    #[allow(clippy::too_many_arguments)]
    pub fn run_case_gc(case: &str, vm: &mut VM, f: &Function, gap: (u32, u32), budget: u64, nfirst: usize, tag: &str, gc: u8) {
        let sp = spec(f, vm);
        if gap_on_grid(f, gap.0, gap.1) {
            // never decoded in-process: from_u8 would transmute a non-discriminant (UB)
            println!("V\t{}\t{}\t{}\tgap:{}", case, tag, sp, child_verify(&sp));
            return;
        }
        let v = verify(vm, f);
        println!("V\t{}\t{}\t{}\t{}", case, tag, sp, v);
        if v == "accept" {
            let (class, log) = execute_logged(vm, f, budget, gc);
            report(case, &class, &log, nfirst);
        }
    }

    pub fn main() {
        quiet_panics();
        let seed = arg_u64("--seed", 0);
        let cases = arg_u64("--cases", 400);
        let budget = arg_u64("--budget", 1500);
        let nfirst = arg_u64("--first", 24) as usize;
        let gap = (arg_u64("--gap-lo", 1) as u32, arg_u64("--gap-hi", 0) as u32);
        let sweep_all = flag("--sweep-all");
        let histories = arg_u64("--histories", 40);
        if let Some(line) = arg("--one-verify") {
            let mut vm = new_vm();
            let toks: Vec<&str> = line.split_whitespace().collect();
            let f = parse_spec(&mut toks.iter(), &mut vm).expect("spec");
            println!("{}", verify(&mut vm, &f));
            return;
        }
        if flag("--probe-from-u8") {
            // child-process probe: which bytes does OpCode::from_u8 accept (Some) -- no value is inspected
            let mut acc = Vec::new();
            for b in 0..=255u8 {
                if aelys_bytecode::OpCode::from_u8(b).is_some() {
                    acc.push(b.to_string());
                }
            }
            println!("FROMU8\t{}", acc.join(" "));
            return;
        }
        if let Some(file) = arg("--aasm") {
            // an assembly file: assembled by the real assembler, run without and with a collection at every safepoint
            let text = std::fs::read_to_string(&file).expect("aasm");
            for gc in [0u8, 2] {
                match aelys_bytecode::asm::assemble_from_string(&text) {
                    Ok((fs, mut h)) => {
                        let mut vm = new_vm();
                        if let (Some(mut f), Ok(remap)) = (fs.into_iter().next(), vm.merge_heap(&mut h)) {
                            f.remap_constants(&remap);
                            run_case_gc(&format!("aasm-gc{}", gc), &mut vm, &f, gap, budget, 1000, &format!("aasm:gc{}", gc), gc);
                        }
                    }
                    Err(_) => println!("E\tassemble-failed\t{}", file),
                }
            }
            print_hist();
            return;
        }
        if let Some(file) = arg("--src") {
            // one source program, unmutated, at every optimisation level, without and with a collection at every safepoint
            let text = std::fs::read_to_string(&file).expect("src");
            for opt in 0..4u32 {
                for gc in [0u8, 2] {
                    let mut vm = new_vm();
                    match compile(&mut vm, &text, opt) {
                        Some(f) => run_case_gc(&format!("src-o{}-gc{}", opt, gc), &mut vm, &f, gap, budget, nfirst, &format!("src:o{}:gc{}", opt, gc), gc),
                        None => println!("E\tcompile-failed\tsrc\t{}", opt),
                    }
                }
            }
            print_hist();
            return;
        }
        if let Some(file) = arg("--corpus") {
            let text = std::fs::read_to_string(&file).expect("corpus");
            for (n, line) in text.lines().enumerate() {
                let line = line.trim();
                if line.is_empty() || line.starts_with('#') {
                    continue;
                }
                let mut vm = new_vm();
                let toks: Vec<&str> = line.split_whitespace().collect();
                let f = parse_spec(&mut toks.iter(), &mut vm).expect("spec");
                run_case(&format!("corpus{}", n), &mut vm, &f, gap, budget, 1000, "corpus");
            }
            print_hist();
            return;
        }
        let handle = std::thread::Builder::new().stack_size(256 << 20).spawn(move || {
            let mut rng = Rng::new(seed);
            // every program unmutated at every optimisation level first
            for (pi, src) in PROGRAMS.iter().enumerate() {
                for opt in 0..4u32 {
                    let mut vm = new_vm();
                    match compile(&mut vm, src, opt) {
                        Some(f) => {
                            run_case(&format!("b{}o{}", pi, opt), &mut vm, &f, gap, budget, nfirst, &format!("p{}o{}:baseline", pi, opt));
                            // the same under a collection at every safepoint (lifetime of cached code pointers)
                            let mut vm2 = new_vm();
                            if let Some(f2) = compile(&mut vm2, src, opt) {
                                run_case_gc(&format!("g{}o{}", pi, opt), &mut vm2, &f2, gap, budget, nfirst, &format!("p{}o{}:baseline-gc", pi, opt), 2);
                            }
                            for how in 0..2u64 {
                                if let Some((mut vm3, f3, label)) = reload(&vm, &f, how, &mut rng) {
                                    run_case(&format!("l{}o{}h{}", pi, opt, how), &mut vm3, &f3, gap, budget, nfirst, &format!("p{}o{}:baseline-{}", pi, opt, label));
                                } else {
                                    println!("E\treload-failed\t{}\t{}\t{}", pi, opt, how);
                                }
                            }
                        }
                        None => println!("E\tcompile-failed\t{}\t{}", pi, opt),
                    }
                }
            }
            // one instruction of every opcode byte below 182 (declared or not), on several register contents
            let variants: &[u32] = if sweep_all { &[0, 1, 2, 3, 4] } else { &[0, 9] };
            for op in 0..182u32 {
                if op >= gap.0 && op <= gap.1 {
                    continue;
                }
                for &v in variants {
                    let v = if v == 9 {
                        match op { 54..=58 | 65..=70 | 87..=91 | 98..=103 => 1, 130..=147 | 179 => 2, 148..=175 | 178 => 3, 176 | 177 => 4, _ => continue }
                    } else { v };
                    for abc in [(4u32, 1u32, 2u32), (3, 0, 1)] {
                        let mut vm = new_vm();
                        let f = sweep_fn(&mut vm, op, v, abc);
                        run_case(&format!("s{}v{}a{}", op, v, abc.0), &mut vm, &f, gap, budget, nfirst, &format!("sweep:op{}:v{}", op, v));
                    }
                    if v != 0 {
                        continue;
                    }
                    // operands exactly at and one past every boundary the verifier draws (8 registers, 3 constants, no upvalues):
                    // single registers, a+c / b+c call windows, a..a+2 and b..b+c-1 ranges, constant indices, jump distances
                    for (k, abc) in [(7u32, 7u32, 7u32), (8, 0, 0), (0, 8, 0), (0, 0, 8), (5, 1, 2), (5, 1, 3), (1, 5, 2), (1, 5, 3),
                                     (6, 0, 0), (1, 5, 4), (0, 2, 0), (0, 3, 0), (0, 0, 2), (0, 0, 3), (0, 255, 254), (0, 255, 255)].iter().enumerate() {
                        let mut vm = new_vm();
                        let f = sweep_fn(&mut vm, op, 0, *abc);
                        run_case(&format!("s{}b{}", op, k), &mut vm, &f, gap, budget, nfirst, &format!("sweep:op{}:boundary{}", op, k));
                    }
                }
            }
            // CallUpval / TailCallUpval are not emitted by the typed pipeline: hand-built closure calling a captured function
            for (op, leaf_is_closure) in [(80u32, false), (81, false), (80, true), (81, true)] {
                let mut vm = new_vm();
                let mut leaf = Function::new(Some("leaf".into()), 1);
                leaf.num_registers = 2;
                leaf.constants.push(Value::int(7));
                leaf.constants.push(Value::int(8));
                set_code(&mut leaf, vec![ins_imm(2, 1, 1), ins(5, 0, 0, 1), ins(22, 0, 0, 0)]);
                let mut user = Function::new(Some("user".into()), 0);
                user.num_registers = 4;
                user.upvalue_descriptors.push(UpvalueDescriptor { is_local: true, index: 2 });
                set_code(&mut user, vec![ins_imm(1, 1, 5), ins(op, 0, 0, 1), ins(22, 0, 0, 0)]);
                let mut main = Function::new(Some("main".into()), 0);
                main.num_registers = 8;
                main.constants.push(Value::nested_fn_marker(0));
                main.constants.push(Value::nested_fn_marker(1));
                main.nested_functions.push(leaf);
                main.nested_functions.push(user);
                let load_leaf = if leaf_is_closure { ins(35, 2, 0, 0) } else { ins_imm(2, 2, 0) };
                set_code(&mut main, vec![load_leaf, ins(35, 5, 1, 1), ins(21, 6, 5, 0), ins(22, 6, 0, 0)]);
                run_case(&format!("u{}c{}", op, leaf_is_closure as u8), &mut vm, &main, gap, budget, nfirst, &format!("sweep:upvalcall{}", op));
            }
            // CallUpval / TailCallUpval into a DIFFERENT function with a larger constant pool that then calls, returns and
            // loads a high constant (the frame record the return reloads must be the tail-called function's)
            for op in [80u32, 81] {
                for tramp_consts in [0usize, 1, 3] {
                    for worker_closure in [false, true] {
                        let mut vm = new_vm();
                        let mut noop = Function::new(Some("noop".into()), 0);
                        noop.num_registers = 1;
                        set_code(&mut noop, vec![ins(23, 0, 0, 0)]);
                        let mut worker = Function::new(Some("worker".into()), 0);
                        worker.num_registers = 3;
                        worker.constants.push(Value::nested_fn_marker(0));
                        for k in 0..7 {
                            worker.constants.push(Value::int(770 + k));
                        }
                        worker.nested_functions.push(noop);
                        set_code(&mut worker, vec![ins_imm(2, 0, 0), ins(21, 1, 0, 0), ins_imm(2, 2, 7), ins_imm(2, 1, 3), ins(22, 2, 0, 0)]);
                        let mut tramp = Function::new(Some("trampoline".into()), 0);
                        tramp.num_registers = 2;
                        for k in 0..tramp_consts {
                            tramp.constants.push(Value::int(5 + k as i64));
                        }
                        tramp.upvalue_descriptors.push(UpvalueDescriptor { is_local: true, index: 0 });
                        set_code(&mut tramp, vec![ins(op, 0, 0, 0), ins(22, 0, 0, 0)]);
                        let mut main = Function::new(Some("main".into()), 0);
                        main.num_registers = 6;
                        main.constants.push(Value::nested_fn_marker(0));
                        main.constants.push(Value::nested_fn_marker(1));
                        main.nested_functions.push(worker);
                        main.nested_functions.push(tramp);
                        let load_worker = if worker_closure { ins(35, 0, 0, 0) } else { ins_imm(2, 0, 0) };
                        set_code(&mut main, vec![load_worker, ins(35, 3, 1, 1), ins(21, 4, 3, 0), ins(22, 4, 0, 0)]);
                        run_case(&format!("t{}c{}w{}", op, tramp_consts, worker_closure as u8), &mut vm, &main, gap, budget, nfirst,
                                 &format!("sweep:upvalcall{}-then-call:tramp{}:{}", op, tramp_consts, if worker_closure { "closure" } else { "function" }));
                    }
                }
            }
            // callees WITHOUT a final Return (the end of the code is an implicit return) called from a closure that drops the
            // callee, allocates and then uses its own upvalue: the loop must be back on the caller's upvalue vector
            for callee_closure in [false, true] {
                for callop in [21u32, 79] {
                    for big in [false, true] {
                        for gc in [0u8, 2] {
                            let mut vm = new_vm();
                            let mut b = Function::new(Some("B".into()), 0);
                            b.num_registers = 2;
                            if callee_closure {
                                b.upvalue_descriptors.push(UpvalueDescriptor { is_local: false, index: 0 });
                                set_code(&mut b, vec![ins(36, 0, 0, 0)]);                 // GetUpval r0, u0 ; falls off the end
                            } else {
                                set_code(&mut b, vec![ins_imm(1, 0, 5), ins(0, 1, 0, 0)]); // no Return either
                            }
                            let mut a = Function::new(Some("A".into()), 0);
                            a.num_registers = 8;
                            a.upvalue_descriptors.push(UpvalueDescriptor { is_local: true, index: 0 });
                            a.constants.push(Value::nested_fn_marker(0));
                            a.constants.push(Value::int(200_000));
                            a.nested_functions.push(b);
                            let mk_b = if callee_closure { ins(35, 1, 0, 1) } else { ins_imm(2, 1, 0) };
                            set_code(&mut a, vec![
                                mk_b, ins(callop, 2, 1, 0), ins(3, 1, 0, 0), ins(3, 2, 0, 0),
                                if big { ins_imm(2, 3, 1) } else { ins_imm(1, 3, 4) }, ins(130, 3, 3, 0),
                                ins(36, 5, 0, 0), ins(36, 6, 0, 0), ins(22, 5, 0, 0),
                            ]);
                            let mut main = Function::new(Some("main".into()), 0);
                            main.num_registers = 4;
                            main.constants.push(Value::nested_fn_marker(0));
                            main.nested_functions.push(a);
                            set_code(&mut main, vec![ins_imm(1, 0, 111), ins(35, 1, 0, 1), ins(21, 2, 1, 0), ins(22, 2, 0, 0)]);
                            run_case_gc(&format!("e{}{}{}g{}", callee_closure as u8, callop, big as u8, gc), &mut vm, &main, gap, budget, nfirst,
                                        &format!("sweep:implicit-return:{}:call{}:{}{}", if callee_closure { "closure" } else { "function" }, callop,
                                                 if big { "bigalloc" } else { "smallalloc" }, if gc == 2 { ":gc" } else { "" }), gc);
                        }
                    }
                }
            }
            // rebinding the callee of one call site through a non-object value, with garbage and slot reuse in between
            for unbind in 0..4u32 {
                for closure in [false, true] {
                    for big in [false, true] {
                        for (ac, bc) in [(64usize, 0usize), (0, 64), (3, 3)] {
                            for gc in [0u8, 2] {
                                let mut vm = new_vm();
                                let f = rebind_fn(unbind, closure, big, ac, bc, 3);
                                run_case_gc(&format!("r{}{}{}a{}g{}", unbind, closure as u8, big as u8, ac, gc), &mut vm, &f, gap, budget, nfirst,
                                            &format!("rebind:unbind{}:{}:{}:a{}b{}{}", unbind, if closure { "closure" } else { "function" },
                                                     if big { "bigalloc" } else { "smallalloc" }, ac, bc, if gc == 2 { ":gc" } else { "" }), gc);
                            }
                        }
                    }
                }
            }
            // random call-site-cache histories under a collection at every safepoint: one call site, a global that is
            // rebound to fresh closures / plain functions, calls skipped, garbage of several kinds in between
            for n in 0..histories {
                let mut src = String::from("fn mk(k) { return fn(x) { let a = \"h1\"\n let b = \"h2\"\n let c = a + b\n return x + k } }\nfn mk2(k) { let z = k + 1\n return fn(x) { let a = \"q\"\n return x + z } }\nfn plain(x) { let s = \"p\" + \"q\"\n return x + 1 }\nfn mkf() { return fn(x) { let a = \"f1\"\n let b = \"f2\"\n let c = a + b\n return x + 2 } }\nlet mut g = mk(0)\nlet mut acc = 0\nlet mut junk = \"j\"\nlet mut jv = Vec[]\nfn call(v) { return g(v) }\n");
                let len = 8 + rng.below(22);
                for i in 0..len {
                    match rng.below(9) {
                        0 | 1 | 2 => src.push_str(&format!("acc = acc + call({})\n", i)),
                        3 | 4 => src.push_str(&format!("g = mk({})\n", i)),
                        5 => src.push_str(&format!("g = mk2({})\n", i)),
                        6 => src.push_str(if rng.chance(1, 3) { "g = plain\n" } else { "g = mkf()\n" }),
                        7 => src.push_str("junk = junk + \"x\"\n"),
                        _ => src.push_str(&format!("jv = Vec[]\njv.push({})\n", i)),
                    }
                }
                src.push_str("println(acc)\n");
                let opt = rng.below(4) as u32;
                let gc = if rng.chance(4, 5) { 2 } else { 0 };
                let mut vm = new_vm();
                match compile(&mut vm, &src, opt) {
                    Some(f) => run_case_gc(&format!("h{}", n), &mut vm, &f, gap, budget * 3, nfirst, &format!("p99o{}:history:len{}{}", opt, len, if gc == 2 { ":gc" } else { "" }), gc),
                    None => println!("E\tcompile-failed\thistory\t{}", n),
                }
            }
            for n in 0..cases {
                let mut vm = new_vm();
                let pi = rng.below(PROGRAMS.len() as u64) as usize;
                let opt = rng.below(4) as u32;
                let base = match compile(&mut vm, PROGRAMS[pi], opt) {
                    Some(f) => f,
                    None => {
                        println!("E\tcompile-failed\t{}\t{}", pi, opt);
                        continue;
                    }
                };
                let (tag, f) = mutate(&base, &mut rng, gap);
                let gc = if rng.chance(1, 5) { 2 } else { 0 };
                run_case_gc(&format!("c{}", n), &mut vm, &f, gap, budget, nfirst, &format!("p{}o{}:{}{}", pi, opt, tag, if gc == 2 { ":gc" } else { "" }), gc);
                if rng.chance(1, 4) && !gap_on_grid(&f, gap.0, gap.1) {
                    let how = rng.below(2);
                    if let Some((mut vm3, f3, label)) = reload(&vm, &f, how, &mut rng) {
                        run_case(&format!("c{}r", n), &mut vm3, &f3, gap, budget, nfirst, &format!("p{}o{}:{}:via-{}", pi, opt, tag, label));
                    }
                }
            }
            print_hist();
        }).unwrap();
        handle.join().unwrap();
    }

    #[allow(dead_code)]
    fn _unused(_: AelysError) {}
}

#[cfg(vbxq_aelys_lang_verif)]
fn main() {
    imp::main()
}
#[cfg(not(vbxq_aelys_lang_verif))]
fn main() {
    eprintln!("built without hooks");
    std::process::exit(2);
}
