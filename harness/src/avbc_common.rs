//! Shared by hx_avbc (C08) and hx_fuzz (C07): model-term dumps of Functions, hand-built
//! Function generator, byte mutators, compile / load / run routes replicated from the CLI
//! (cli/src/cli/commands/{compile,run}.rs) on top of the same public entry points.
#![allow(dead_code)]
use aelys_bytecode::asm::{assemble, deserialize, deserialize_with_manifest, disassemble_to_string, serialize, try_serialize, BinaryError};
use aelys_bytecode::{Function, GcRef, GlobalLayout, Heap, ObjectKind, UpvalueDescriptor, Value};
use hxlib::Rng;

pub fn hex(b: &[u8]) -> String {
    let mut s = String::with_capacity(b.len() * 2);
    for x in b {
        s.push_str(&format!("{:02x}", x));
    }
    s
}
pub fn unhex(s: &str) -> Vec<u8> {
    (0..s.len() / 2).map(|i| u8::from_str_radix(&s[2 * i..2 * i + 2], 16).unwrap_or(0)).collect()
}

// ------------------------------------------------------------------ model terms
pub fn dump_const(v: &Value, heap: &Heap) -> String {
    if v.is_null() {
        "CNull".into()
    } else if let Some(b) = v.as_bool() {
        format!("CBool {}", b)
    } else if let Some(n) = v.as_int() {
        format!("CInt {}%Z", hxlib::zc(n as i128))
    } else if v.is_float() {
        format!("CFloat {}", v.raw_bits())
    } else if let Some(i) = v.as_nested_fn_marker() {
        format!("CFunc {}", i)
    } else if let Some(p) = v.as_ptr() {
        match heap.get(GcRef::new(p)) {
            Some(obj) => match &obj.kind {
                ObjectKind::String(s) => format!("CStr (hx \"{}\")", hex(s.as_str().as_bytes())),
                _ => format!("CPtr {}", p),
            },
            None => format!("CPtr {}", p),
        }
    } else {
        "CNull".into()
    }
}

pub fn dump_func(f: &Function, heap: &Heap) -> String {
    let name = match &f.name {
        Some(s) => format!("(Some (hx \"{}\"))", hex(s.as_bytes())),
        None => "None".into(),
    };
    let consts: Vec<String> = f.constants.iter().map(|c| dump_const(c, heap)).collect();
    let mut code = String::new();
    for w in f.bytecode.iter() {
        code.push_str(&format!("{:08x}", w));
    }
    let nested: Vec<String> = f.nested_functions.iter().map(|g| dump_func(g, heap)).collect();
    let upv: Vec<String> = f.upvalue_descriptors.iter().map(|u| format!("({}, {})", u.is_local, u.index)).collect();
    let lines: Vec<String> = f.lines.iter().map(|(c, l)| format!("({}, {})", c, l)).collect();
    let globals: Vec<String> = f.global_layout.names().iter().map(|g| format!("hx \"{}\"", hex(g.as_bytes()))).collect();
    format!(
        "(Func {} {} {} {} [{}] (hw \"{}\") [{}] [{}] [{}] [{}])",
        name, f.arity, f.num_registers, f.call_site_count,
        consts.join("; "), code, nested.join("; "), upv.join("; "), lines.join("; "), globals.join("; ")
    )
}

pub fn err_term(e: &BinaryError) -> String {
    match e {
        BinaryError::Io(io) => match io.kind() {
            std::io::ErrorKind::UnexpectedEof => "EEof".into(),
            std::io::ErrorKind::InvalidData => "EUtf8Global".into(),
            k => format!("EOtherIo_{:?}", k),
        },
        BinaryError::InvalidMagic => "EMagic".into(),
        BinaryError::UnsupportedVersion(_) => "EVersion".into(),
        BinaryError::InvalidConstantType(_) => "EConstTag".into(),
        BinaryError::InvalidNestedFunctionIndex { .. } => "ENestedIdx".into(),
        BinaryError::InvalidUtf8 => "EUtf8".into(),
        BinaryError::UnexpectedEof => "EEof".into(),
        // matched by its message so that the harness also builds against a tree without the variant
        other if other.to_string().starts_with("Invalid pointer constant") => "EPtr".into(),
        BinaryError::LimitExceeded { what, .. } => {
            let id = match *what {
                "function nesting depth" => 0,
                "function name length" => 1,
                "constants" => 2,
                "bytecode length" => 3,
                "nested functions" => 4,
                "upvalue descriptors" => 5,
                "line info entries" => 6,
                "global names" => 7,
                "global name length" => 8,
                "string length" => 9,
                _ => 99,
            };
            format!("(ELimit {})", id)
        }
        #[allow(unreachable_patterns)]
        _ => "EOther".into(),
    }
}

/// Error of the validating writer (try_serialize) as a model term of type `err_w`.
pub fn werr_term(e: &BinaryError) -> String {
    match e {
        BinaryError::InvalidNestedFunctionIndex { .. } => "WNestedIdx".into(),
        BinaryError::LimitExceeded { .. } => err_term(e).replace("ELimit", "WLimit"),
        other => format!("WOther_{}", other.to_string().split_whitespace().next().unwrap_or("")),
    }
}

/// Result of the real `deserialize` as a model term of type `result`.
pub fn read_result_term(bytes: &[u8]) -> String {
    let b = bytes.to_vec();
    match hxlib::guarded(move || deserialize(&b).map(|(f, h)| dump_func(&f, &h)).map_err(|e| err_term(&e))) {
        Ok(Ok(t)) => format!("ROk {}", t),
        Ok(Err(e)) => format!("RErr {}", e),
        Err(_) => "RCrash".into(),
    }
}

/// Model-free oracle: after save + load nothing may differ except what saving is documented to
/// change (CallGlobalMono -> CallGlobal, zeroed cache words, call_site_count, empty name).
pub fn structure_preserved(f: &Function, hf: &Heap, g: &Function, hg: &Heap) -> Result<(), String> {
    let nf = f.name.clone().filter(|s| !s.is_empty());
    if nf != g.name { return Err("name".into()); }
    if f.arity != g.arity || f.num_registers != g.num_registers { return Err("arity/registers".into()); }
    if f.constants.len() != g.constants.len() { return Err("constant count".into()); }
    for (a, b) in f.constants.iter().zip(g.constants.iter()) {
        let (da, db) = (dump_const(a, hf), dump_const(b, hg));
        if da != db && !(da.starts_with("CPtr") && db.starts_with("CStr")) { return Err(format!("constant {} -> {}", da, db)); }
    }
    let (a, b): (Vec<u32>, Vec<u32>) = (f.bytecode.iter().copied().collect(), g.bytecode.iter().copied().collect());
    if a.len() != b.len() { return Err("bytecode length".into()); }
    for i in 0..a.len() {
        if a[i] == b[i] { continue; }
        let call = |w: u32| (w >> 24) == 77 || (w >> 24) == 78;
        let rewritten = (a[i] >> 24) == 78 && b[i] == ((a[i] & 0x00FF_FFFF) | (77 << 24));
        let zeroed = b[i] == 0 && ((i >= 1 && call(a[i - 1])) || (i >= 2 && call(a[i - 2])));
        if !(rewritten || zeroed) { return Err(format!("bytecode word {}: {:08x} -> {:08x}", i, a[i], b[i])); }
    }
    if f.upvalue_descriptors.len() != g.upvalue_descriptors.len()
        || f.upvalue_descriptors.iter().zip(g.upvalue_descriptors.iter()).any(|(x, y)| x.is_local != y.is_local || x.index != y.index) { return Err("upvalues".into()); }
    if f.lines != g.lines { return Err("lines".into()); }
    if f.global_layout.names() != g.global_layout.names() { return Err("global names".into()); }
    if f.nested_functions.len() != g.nested_functions.len() { return Err("nested count".into()); }
    for (x, y) in f.nested_functions.iter().zip(g.nested_functions.iter()) { structure_preserved(x, hf, y, hg)?; }
    Ok(())
}

// ------------------------------------------------------------------ hand-built functions
const NAMES: &[&str] = &["", "a", "main", "f_1", "h\u{e9}llo", "\u{1F600}x", "io::println", "math::sqrt", "x y", "q\"uote", "\\n"];

fn rand_string(rng: &mut Rng) -> String {
    if rng.chance(1, 2) {
        return (*rng.pick(NAMES)).to_string();
    }
    let n = rng.below(12) as usize;
    let mut s = String::new();
    for _ in 0..n {
        let c = match rng.below(6) {
            0 => char::from_u32(0x20 + rng.below(0x5f) as u32).unwrap(),
            1 => char::from_u32(0xa0 + rng.below(0x700) as u32).unwrap_or('?'),
            2 => char::from_u32(0x800 + rng.below(0xd000 - 0x800) as u32).unwrap_or('?'),
            3 => char::from_u32(0x10000 + rng.below(0x100000) as u32).unwrap_or('?'),
            4 => char::from_u32(rng.below(0x20) as u32).unwrap(),
            _ => char::from_u32(0x61 + rng.below(26) as u32).unwrap(),
        };
        s.push(c);
    }
    s
}

fn rand_word(rng: &mut Rng) -> u32 {
    match rng.below(10) {
        0 => (77u32 << 24) | (rng.next_u64() as u32 & 0xFFFFFF),
        1 => (78u32 << 24) | (rng.next_u64() as u32 & 0xFFFFFF),
        2 => (104u32 << 24) | (rng.next_u64() as u32 & 0xFFFFFF),
        3 => rng.next_u64() as u32,
        4 => 0,
        5 => rng.below(0x10000) as u32,
        _ => ((rng.below(177) as u32) << 24) | (rng.next_u64() as u32 & 0xFFFFFF),
    }
}

const INTS: &[i64] = &[0, 1, -1, 255, 256, 65535, 65536, 140737488355327, -140737488355328, 4294967296, -4294967297, 1234567890123];
const FLOATS: &[u64] = &[0, 0x8000000000000000, 0x3ff0000000000000, 0x7ff0000000000000, 0xfff0000000000000, 0x7ff8000000000001,
    0x0000000000000001, 0x7fefffffffffffff, 0x400921fb54442d18, 0xc0590ccccccccccd];

pub fn gen_func(rng: &mut Rng, depth: u32, heap: &mut Heap) -> Function {
    let name = match rng.below(4) { 0 => None, _ => Some(rand_string(rng)) };
    let mut f = Function::new(name, rng.below(256) as u8);
    f.num_registers = rng.below(256) as u8;
    f.call_site_count = if rng.chance(1, 2) { 0 } else { rng.below(65536) as u16 };
    let n_nested = if depth >= 3 { 0 } else { rng.below(if depth == 0 { 4 } else { 3 }) as usize };
    let nc = rng.below(9) as usize;
    for _ in 0..nc {
        let v = match rng.below(9) {
            0 => Value::null(),
            1 => Value::bool(rng.chance(1, 2)),
            2 => Value::int(if rng.chance(1, 2) { *rng.pick(INTS) } else { rng.range_i64(-140737488355328, 140737488355327) }),
            3 => Value::float(f64::from_bits(if rng.chance(1, 2) { *rng.pick(FLOATS) } else { rng.next_u64() })),
            4 | 5 => { let s = rand_string(rng); Value::ptr(heap.intern_string(&s).index()) }
            6 => if n_nested > 0 && !rng.chance(1, 12) { Value::nested_fn_marker(rng.below(n_nested as u64) as usize) }
                 else if rng.chance(1, 3) { Value::nested_fn_marker(n_nested + rng.below(3) as usize) }     // marker without its function
                 else { Value::null() },
            7 => Value::ptr(100_000 + rng.below(1 << 40) as usize),      // dangling pointer: stays raw
            _ => Value::ptr(rng.below(4) as usize),                       // small pointer: may alias a string
        };
        f.constants.push(v);
    }
    let nw = match rng.below(4) { 0 => 0, 1 => rng.below(4), _ => rng.below(24) } as usize;
    let mut code: Vec<u32> = (0..nw).map(|_| rand_word(rng)).collect();
    if rng.chance(1, 6) { code.push((77u32 + rng.below(2) as u32) << 24); }                // call opcode as the last word
    f.set_bytecode(code);
    for _ in 0..n_nested {
        let g = gen_func(rng, depth + 1, heap);
        f.nested_functions.push(g);
    }
    let n_up = if rng.chance(1, 40) { 255 + rng.below(4) } else { rng.below(4) };     // around the 256 limit
    for _ in 0..n_up {
        f.upvalue_descriptors.push(UpvalueDescriptor { is_local: rng.chance(1, 2), index: rng.below(256) as u8 });
    }
    for _ in 0..rng.below(5) {
        f.lines.push((if rng.chance(1, 4) { 65535 } else { rng.below(300) as u16 }, if rng.chance(1, 8) { u32::MAX } else { rng.below(100000) as u32 }));
    }
    let ng = rng.below(6) as usize;
    if ng > 0 {
        f.global_layout = GlobalLayout::new((0..ng).map(|_| rand_string(rng)).collect());
    }
    f.compute_global_layout_hash();
    f
}

// ------------------------------------------------------------------ byte mutators
const EDGE32: &[u32] = &[0, 1, 2, 255, 256, 257, 4095, 4096, 4097, 65535, 65536, 999_999, 1_000_000, 1_000_001, 0x7fffffff, 0xffffffff];

pub fn mutate(rng: &mut Rng, base: &[u8]) -> (Vec<u8>, &'static str) {
    let mut b = base.to_vec();
    let n = b.len().max(1);
    match rng.below(12) {
        0 => { let i = rng.below(n as u64) as usize; if i < b.len() { b[i] ^= 1 << rng.below(8); } (b, "bitflip") }
        1 => { let i = rng.below(n as u64) as usize; if i < b.len() { b[i] = rng.below(256) as u8; } (b, "byte") }
        2 => { let k = rng.below(n as u64 + 1) as usize; b.truncate(k); (b, "truncate") }
        3 => { let i = rng.below(n as u64 + 1) as usize; let k = rng.below(8) as usize; for _ in 0..k { b.insert(i.min(b.len()), rng.below(256) as u8); } (b, "insert") }
        4 => { let i = rng.below(n as u64) as usize; let v = (*rng.pick(EDGE32) as u16).to_le_bytes(); for k in 0..2 { if i + k < b.len() { b[i + k] = v[k]; } } (b, "edge16") }
        5 => { let i = rng.below(n as u64) as usize; let v = rng.pick(EDGE32).to_le_bytes(); for k in 0..4 { if i + k < b.len() { b[i + k] = v[k]; } } (b, "edge32") }
        6 => { let i = 16 + rng.below((n as u64).saturating_sub(16).max(1)) as usize; if i < b.len() { b[i] = rng.below(9) as u8; } (b, "tag") }
        7 => { let i = rng.below(n as u64) as usize; if i < b.len() { b[i] = *rng.pick(&[0x80u8, 0xc0, 0xc1, 0xe0, 0xed, 0xf4, 0xf5, 0xff]); } (b, "utf8") }
        8 => { let i = rng.below(n as u64) as usize; let v = [6u8, 0xff, 0xff, 0xff, 0xff, 0xff, 0xff, if rng.chance(1, 2) { 0 } else { 0xff }, if rng.chance(1, 2) { 0 } else { 1 }];
               for k in 0..9 { if i + k < b.len() { b[i + k] = v[k]; } } (b, "bigptr") }
        9 => { let i = rng.below(n as u64) as usize; let k = rng.below(6) as usize; for _ in 0..k { if i < b.len() { b.remove(i); } } (b, "delete") }
        10 => { for _ in 0..3 { let i = rng.below(n as u64) as usize; if i < b.len() { b[i] = rng.below(256) as u8; } } (b, "byte3") }
        _ => { let k = rng.below(64) as usize; let mut r: Vec<u8> = b"VBXQ\x01\x00\x00\x00\x01\x00\x00\x00\x00\x00\x00\x00".to_vec();
               for _ in 0..k { r.push(if rng.chance(1, 3) { rng.below(8) as u8 } else { rng.below(256) as u8 }); } (r, "random-after-header") }
    }
}

// ------------------------------------------------------------------ compile / load / run (hooks required)
#[cfg(vbxq_aelys_lang_verif)]
pub mod routes {
    use super::*;
    use aelys_backend::Compiler;
    use aelys_common::error::AelysError;
    use aelys_driver::modules::{load_modules_with_loader, ModuleLoader};
    use aelys_frontend::lexer::Lexer;
    use aelys_frontend::parser::Parser;
    use aelys_modules::manifest::Manifest;
    use aelys_opt::Optimizer;
    use aelys_runtime::{VmConfig, VM};
    use aelys_syntax::{ImportKind, NeedsStmt, Source, Span, StmtKind};
    use hxlib::runner::{classify, opt_level, Outcome};
    use std::collections::HashSet;
    use std::path::Path;

    const BUILTIN_NAMES: &[&str] = &["alloc", "free", "load", "store", "type"];

    /// cli compile.rs: compile_to_avbc_with_output up to (function, heap), keeping the VM the
    /// modules were loaded into (the "original" run executes there, as run_file_full does).
    pub fn compile(path: &Path, content: &str, opt: u32, strip: bool) -> Result<(Function, Heap, VM), String> {
        let name = path.display().to_string();
        let src = Source::new(&name, content);
        let tokens = Lexer::with_source(src.clone()).scan().map_err(|e| e.to_string())?;
        let stmts = Parser::new(tokens, src.clone()).parse().map_err(|e| e.to_string())?;
        let mut vm = VM::with_config_and_args(src.clone(), VmConfig::default(), Vec::new()).map_err(|e| e.to_string())?;
        vm.set_script_path(path.display().to_string());
        let (imports, _loader) = load_modules_with_loader(&stmts, path, src.clone(), &mut vm).map_err(|e| e.to_string())?;
        let main_stmts: Vec<_> = stmts.into_iter().filter(|s| !matches!(s.kind, StmtKind::Needs(_))).collect();
        let mut known = imports.known_globals.clone();
        for b in BUILTIN_NAMES { known.insert(b.to_string()); }
        let typed = aelys_sema::TypeInference::infer_program_with_imports(main_stmts, src.clone(), imports.module_aliases.clone(), known)
            .map_err(|errs| errs.first().map(|e| e.to_string()).unwrap_or_else(|| "Unknown type error".into()))?;
        let mut optimizer = Optimizer::new(opt_level(opt));
        let typed = optimizer.optimize(typed);
        let (mut function, heap, _g) = Compiler::with_modules(None, src.clone(), imports.module_aliases, imports.known_globals,
            imports.known_native_globals, imports.symbol_origins).compile_typed(&typed).map_err(|e| e.to_string())?;
        if strip { function.strip_debug_info(); }
        Ok((function, heap, vm))
    }

    fn exec(vm: &mut VM, mut function: Function, mut heap: Heap) -> Result<(Value, String), AelysError> {
        let remap = vm.merge_heap(&mut heap).map_err(AelysError::Runtime)?;
        function.remap_constants(&remap);
        let func_ref = vm.alloc_function(function).map_err(AelysError::Runtime)?;
        let v = vm.execute(func_ref)?;
        let s = vm.value_to_string(v);
        Ok((v, s))
    }

    fn with_capture<F: FnOnce() -> Result<Result<(Value, String), AelysError>, String>>(budget: u64, f: F) -> Outcome {
        use aelys_runtime::verif;
        verif::sink_install();
        verif::budget_set(budget);
        let r = match hxlib::guarded(std::panic::AssertUnwindSafe(f)) {
            Ok(Ok(x)) => Ok(x),
            Ok(Err(load)) => { let out = verif::sink_take(); verif::budget_set(u64::MAX);
                               return Outcome { class: format!("load-error:{}", load.split('|').next().unwrap_or("")), output: out, value: String::new(), detail: load }; }
            Err(p) => Err(p),
        };
        let out = verif::sink_take();
        verif::budget_set(u64::MAX);
        classify(r, out)
    }

    /// run the compiled function in the VM it was compiled against
    pub fn run_original(mut vm: VM, function: Function, heap: Heap, budget: u64) -> Outcome {
        with_capture(budget, move || Ok(exec(&mut vm, function, heap)))
    }

    // cli run.rs: collect_required_modules / load_required_modules / try_load_std_module
    // (since e86bdef: each module once, in the order the bytecode records them - own global layout first, then nested functions)
    fn collect_required_modules(f: &Function, out: &mut Vec<String>, seen: &mut HashSet<String>) {
        for name in f.global_layout.names() {
            if let Some(m) = name.split("::").next() && name.contains("::") && seen.insert(m.to_string()) { out.push(m.to_string()); }
        }
        for n in &f.nested_functions { collect_required_modules(n, out, seen); }
    }
    fn load_required_modules(vm: &mut VM, entry: &Path, source: std::sync::Arc<Source>, modules: &[String], manifest: Option<&Manifest>) -> Result<(), String> {
        let mut loader = ModuleLoader::with_manifest(entry, source.clone(), manifest.cloned());
        for m in modules {
            let std_needs = NeedsStmt { path: vec!["std".to_string(), m.clone()], kind: ImportKind::Module { alias: None }, span: Span::dummy() };
            if loader.load_module(&std_needs, vm).is_ok() { continue; }
            let needs = NeedsStmt { path: vec![m.clone()], kind: ImportKind::Module { alias: None }, span: Span::dummy() };
            loader.load_module(&needs, vm).map_err(|e| format!("module|{}", e))?;
        }
        Ok(())
    }
    pub fn reconstruct_function_hierarchy(mut functions: Vec<Function>) -> Function {
        if functions.len() <= 1 {
            return functions.into_iter().next().unwrap_or_else(|| Function::new(None, 0));
        }
        let mut main = functions.remove(0);
        main.nested_functions = functions;
        main
    }

    fn load_and_exec(path: &Path, function: Function, heap: Heap, manifest: Option<Manifest>) -> Result<Result<(Value, String), AelysError>, String> {
        let src = Source::new(path.display().to_string(), "");
        let mut vm = VM::with_config_and_args(src.clone(), VmConfig::default(), Vec::new()).map_err(|e| format!("vm|{}", e))?;
        vm.set_script_path(path.display().to_string());
        let (mut mods, mut seen) = (Vec::new(), HashSet::new());
        collect_required_modules(&function, &mut mods, &mut seen);
        load_required_modules(&mut vm, path, src, &mods, manifest.as_ref())?;
        Ok(exec(&mut vm, function, heap))
    }

    /// cli run.rs: run_avbc_file on in-memory bytes; `patch` may edit the loaded function
    pub fn run_avbc(path: &Path, bytes: &[u8], budget: u64, patch: &dyn Fn(&mut Function)) -> Outcome {
        with_capture(budget, || {
            let (mut function, heap, manifest_bytes, _bundles) = deserialize_with_manifest(bytes).map_err(|e| format!("deserialize|{}", e))?;
            let manifest = match manifest_bytes.as_deref() { Some(b) => Some(Manifest::from_bytes(b).map_err(|e| format!("manifest|{}", e))?), None => None };
            patch(&mut function);
            load_and_exec(path, function, heap, manifest)
        })
    }

    /// cli run.rs: run_aasm_file on in-memory text
    pub fn run_aasm(path: &Path, text: &str, budget: u64, patch: &dyn Fn(&mut Function)) -> Outcome {
        with_capture(budget, || {
            let (functions, heap) = assemble(text).map_err(|e| format!("assemble|{}", e))?;
            if functions.is_empty() { return Err("assemble|no functions found in assembly file".to_string()); }
            let mut function = reconstruct_function_hierarchy(functions);
            patch(&mut function);
            load_and_exec(path, function, heap, None)
        })
    }

    /// copy the call-site slot ids (low 16 bits of the second cache word) from `orig` into `re`
    /// wherever both have a CallGlobal/CallGlobalMono at the same offset
    pub fn restore_slots(orig: &Function, re: &mut Function) {
        let o: Vec<u32> = orig.bytecode.iter().copied().collect();
        let mut r: Vec<u32> = re.bytecode.iter().copied().collect();
        let mut i = 0;
        while i + 2 < o.len() && i + 2 < r.len() {
            let (oo, ro) = (o[i] >> 24, r[i] >> 24);
            if (oo == 77 || oo == 78) && (ro == 77 || ro == 78) {
                r[i + 2] = (r[i + 2] & 0xFFFF0000) | (o[i + 2] & 0xFFFF);
                i += 3;
            } else if oo == 104 { i += 3; } else { i += 1; }
        }
        re.set_bytecode(r);
        re.call_site_count = orig.call_site_count;
        let n = orig.nested_functions.len().min(re.nested_functions.len());
        for k in 0..n {
            let (a, b) = (&orig.nested_functions[k], &mut re.nested_functions[k]);
            restore_slots(a, b);
        }
    }
}
