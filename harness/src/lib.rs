//! Shared helpers for the verification harness binaries.
//! One PRNG (splitmix64) seeded from the command line so every case replays exactly.

pub struct Rng(pub u64);

impl Rng {
    pub fn new(seed: u64) -> Self {
        Rng(seed ^ 0x9E37_79B9_7F4A_7C15)
    }
    pub fn next_u64(&mut self) -> u64 {
        self.0 = self.0.wrapping_add(0x9E37_79B9_7F4A_7C15);
        let mut z = self.0;
        z = (z ^ (z >> 30)).wrapping_mul(0xBF58_476D_1CE4_E5B9);
        z = (z ^ (z >> 27)).wrapping_mul(0x94D0_49BB_1331_11EB);
        z ^ (z >> 31)
    }
    pub fn below(&mut self, n: u64) -> u64 {
        if n == 0 { 0 } else { self.next_u64() % n }
    }
    pub fn range_i64(&mut self, lo: i64, hi: i64) -> i64 {
        // inclusive
        let span = (hi as i128 - lo as i128 + 1) as u128;
        (lo as i128 + (self.next_u64() as u128 % span) as i128) as i64
    }
    pub fn pick<'a, T>(&mut self, xs: &'a [T]) -> &'a T {
        &xs[self.below(xs.len() as u64) as usize]
    }
    pub fn chance(&mut self, num: u64, den: u64) -> bool {
        self.below(den) < num
    }
}

/// `--key value` style argument lookup.
pub fn arg(name: &str) -> Option<String> {
    let a: Vec<String> = std::env::args().collect();
    let mut i = 1;
    while i < a.len() {
        if a[i] == name && i + 1 < a.len() {
            return Some(a[i + 1].clone());
        }
        i += 1;
    }
    None
}
pub fn arg_u64(name: &str, default: u64) -> u64 {
    arg(name).and_then(|s| s.parse().ok()).unwrap_or(default)
}
pub fn flag(name: &str) -> bool {
    std::env::args().any(|a| a == name)
}

/// Coq numeral for a signed integer (parenthesised when negative).
pub fn zc(n: i128) -> String {
    if n < 0 { format!("({})", n) } else { format!("{}", n) }
}

/// Run a closure, turning a panic into Err(message).
pub fn guarded<T>(f: impl FnOnce() -> T + std::panic::UnwindSafe) -> Result<T, String> {
    match std::panic::catch_unwind(f) {
        Ok(v) => Ok(v),
        Err(e) => {
            let msg = if let Some(s) = e.downcast_ref::<&str>() {
                s.to_string()
            } else if let Some(s) = e.downcast_ref::<String>() {
                s.clone()
            } else {
                "panic".to_string()
            };
            Err(msg)
        }
    }
}

pub fn quiet_panics() {
    std::panic::set_hook(Box::new(|_| {}));
}
