//! Shared helpers for the verification harness binaries.
//! One PRNG (splitmix64) seeded from the command line so every case replays exactly.

pub struct Rng(pub u64);

impl Rng {
    pub fn new(seed: u64) -> Self {
        Rng(seed ^ 0x9E37_79B9_7F4A_7C15)
    }
    pub fn next_u64(&mut self) -> u64 {
        self.0 = self.0.wrapping_add(0x9E37_79B9_7F4A_7C15);
        let mut z = self.0;
        z = (z ^ (z >> 30)).wrapping_mul(0xBF58_476D_1CE4_E5B9);
        z = (z ^ (z >> 27)).wrapping_mul(0x94D0_49BB_1331_11EB);
        z ^ (z >> 31)
    }
    pub fn below(&mut self, n: u64) -> u64 {
        if n == 0 { 0 } else { self.next_u64() % n }
    }
    pub fn range_i64(&mut self, lo: i64, hi: i64) -> i64 {
        // inclusive
        let span = (hi as i128 - lo as i128 + 1) as u128;
        (lo as i128 + (self.next_u64() as u128 % span) as i128) as i64
    }
    pub fn pick<'a, T>(&mut self, xs: &'a [T]) -> &'a T {
        &xs[self.below(xs.len() as u64) as usize]
    }
    pub fn chance(&mut self, num: u64, den: u64) -> bool {
        self.below(den) < num
    }
}

/// `--key value` style argument lookup.
pub fn arg(name: &str) -> Option<String> {
    let a: Vec<String> = std::env::args().collect();
    let mut i = 1;
    while i < a.len() {
        if a[i] == name && i + 1 < a.len() {
            return Some(a[i + 1].clone());
        }
        i += 1;
    }
    None
}
pub fn arg_u64(name: &str, default: u64) -> u64 {
    arg(name).and_then(|s| s.parse().ok()).unwrap_or(default)
}
pub fn flag(name: &str) -> bool {
    std::env::args().any(|a| a == name)
}

/// Coq numeral for a signed integer (parenthesised when negative).
pub fn zc(n: i128) -> String {
    if n < 0 { format!("({})", n) } else { format!("{}", n) }
}

/// Run a closure, turning a panic into Err(message).
pub fn guarded<T>(f: impl FnOnce() -> T + std::panic::UnwindSafe) -> Result<T, String> {
    match std::panic::catch_unwind(f) {
        Ok(v) => Ok(v),
        Err(e) => {
            let msg = if let Some(s) = e.downcast_ref::<&str>() {
                s.to_string()
            } else if let Some(s) = e.downcast_ref::<String>() {
                s.clone()
            } else {
                "panic".to_string()
            };
            Err(msg)
        }
    }
}

pub fn quiet_panics() {
    std::panic::set_hook(Box::new(|_| {}));
}

// ------------------------------------------------------------------------------------------
// Running programs through the real toolchain with output capture (hooks H1-H3 required).
pub mod runner {
    use aelys_common::error::{AelysError, RuntimeErrorKind};
    use aelys_opt::OptimizationLevel;
    use aelys_runtime::{VM, Value, VmConfig};

    #[derive(Debug, Clone, PartialEq, Eq)]
    pub struct Outcome {
        /// "ok", "compile-error", "runtime:<Kind>", "panic", "budget"
        pub class: String,
        pub output: String,
        /// printed final value (value_to_string) when class == ok
        pub value: String,
        pub detail: String,
    }

    pub fn opt_level(n: u32) -> OptimizationLevel {
        match n {
            0 => OptimizationLevel::None,
            1 => OptimizationLevel::Basic,
            2 => OptimizationLevel::Standard,
            _ => OptimizationLevel::Aggressive,
        }
    }

    pub fn kind_name(k: &RuntimeErrorKind) -> &'static str {
        match k {
            RuntimeErrorKind::TypeError { .. } => "TypeError",
            RuntimeErrorKind::DivisionByZero => "DivisionByZero",
            RuntimeErrorKind::UndefinedVariable(_) => "UndefinedVariable",
            RuntimeErrorKind::NotCallable(_) => "NotCallable",
            RuntimeErrorKind::ArityMismatch { .. } => "ArityMismatch",
            RuntimeErrorKind::StackOverflow => "StackOverflow",
            RuntimeErrorKind::InvalidAllocationSize { .. } => "InvalidAllocationSize",
            RuntimeErrorKind::OutOfMemory { .. } => "OutOfMemory",
            RuntimeErrorKind::InvalidMemoryHandle => "InvalidMemoryHandle",
            RuntimeErrorKind::DoubleFree => "DoubleFree",
            RuntimeErrorKind::UseAfterFree => "UseAfterFree",
            RuntimeErrorKind::MemoryOutOfBounds { .. } => "MemoryOutOfBounds",
            RuntimeErrorKind::NegativeMemoryIndex { .. } => "NegativeMemoryIndex",
            RuntimeErrorKind::InvalidConstantIndex { .. } => "InvalidConstantIndex",
            RuntimeErrorKind::InvalidOpcode { .. } => "InvalidOpcode",
            RuntimeErrorKind::InvalidRegister { .. } => "InvalidRegister",
            RuntimeErrorKind::InvalidBytecode(m) => {
                if m.contains("verif instruction budget") { "Budget" } else { "InvalidBytecode" }
            }
            RuntimeErrorKind::CapabilityDenied { .. } => "CapabilityDenied",
            RuntimeErrorKind::NativeError { .. } => "NativeError",
            RuntimeErrorKind::IndexOutOfBounds { .. } => "IndexOutOfBounds",
        }
    }

    pub fn classify(r: Result<Result<(Value, String), AelysError>, String>, output: String) -> Outcome {
        match r {
            Ok(Ok((_v, s))) => Outcome { class: "ok".into(), output, value: s, detail: String::new() },
            Ok(Err(AelysError::Compile(e))) => Outcome { class: "compile-error".into(), output, value: String::new(), detail: format!("{}", e) },
            Ok(Err(AelysError::Runtime(e))) => {
                let k = kind_name(&e.kind);
                let class = if k == "Budget" { "budget".to_string() } else { format!("runtime:{}", k) };
                Outcome { class, output, value: String::new(), detail: e.kind.message() }
            }
            Err(p) => Outcome { class: "panic".into(), output, value: String::new(), detail: p },
        }
    }

    /// Compile and run `source` with a fresh VM (REPL-style entry point so that stdlib globals
    /// such as print/println are known), capturing output.
    /// gc: (mode, k) as in aelys_runtime::verif::gc_mode_set; budget: instruction budget.
    #[cfg(vbxq_aelys_lang_verif)]
    pub fn run_program(source: &str, opt: u32, gc: (u8, u64), budget: u64, config: Option<VmConfig>) -> Outcome {
        use aelys_runtime::verif;
        let src = source.to_string();
        verif::sink_install();
        verif::gc_mode_set(gc.0, gc.1);
        verif::budget_set(budget);
        let r = crate::guarded(std::panic::AssertUnwindSafe(move || {
            let cfg = config.unwrap_or_default();
            let mut vm = match aelys_driver::new_vm_with_config(cfg, Vec::new()) {
                Ok(vm) => vm,
                Err(e) => return Err(e),
            };
            let v = aelys_driver::run_with_vm_and_opt(&mut vm, &src, "<verif>", opt_level(opt))?;
            let s = vm.value_to_string(v);
            Ok((v, s))
        }));
        let out = verif::sink_take();
        verif::budget_set(u64::MAX);
        verif::gc_mode_set(0, 0);
        classify(r, out)
    }

    /// One compiled function: path ("main", "main/0/1" = nested function 1 of nested function 0),
    /// arity, number of registers, bytecode words.
    pub type CodeDump = Vec<(String, u8, u8, Vec<u32>)>;

    /// Compile and run `source` the way `aelys run <file>` does (driver/src/api/file.rs
    /// run_file_full, for a program without imports): the WHOLE-PROGRAM optimizer
    /// (Optimizer::new), not the session-unit optimizer the REPL entry point uses.
    /// Also returns the bytecode of every compiled function.
    #[cfg(vbxq_aelys_lang_verif)]
    pub fn run_program_script(source: &str, opt: u32, gc: (u8, u64), budget: u64, config: Option<VmConfig>) -> (Outcome, CodeDump) {
        use aelys_runtime::verif;
        use aelys_common::error::{CompileError, CompileErrorKind};
        let src_text = source.to_string();
        verif::sink_install();
        verif::gc_mode_set(gc.0, gc.1);
        verif::budget_set(budget);
        let code = std::cell::RefCell::new(Vec::new());
        let code_ref = &code;
        let r = crate::guarded(std::panic::AssertUnwindSafe(move || {
            use aelys_frontend::lexer::Lexer;
            use aelys_frontend::parser::Parser;
            let src = aelys_syntax::Source::new("<verif>", &src_text);
            let tokens = Lexer::with_source(src.clone()).scan()?;
            let stmts = Parser::new(tokens, src.clone()).parse()?;
            let mut vm = VM::with_config_and_args(src.clone(), config.unwrap_or_default(), Vec::new()).map_err(AelysError::Runtime)?;
            let mut known: std::collections::HashSet<String> = vm.repl_known_globals().iter().cloned().collect();
            for b in ["alloc", "free", "load", "store", "type"] { known.insert(b.to_string()); }
            let aliases: std::collections::HashSet<String> = vm.repl_module_aliases().iter().cloned().collect();
            let inferred = aelys_sema::TypeInference::infer_program_full(stmts, src.clone(), aliases.clone(), known)
                .map_err(|errors| {
                    let (msg, span) = errors.first().map(|e| (format!("{}", e), e.span)).unwrap_or(("Unknown type error".into(), aelys_syntax::Span::dummy()));
                    AelysError::Compile(CompileError::new(CompileErrorKind::TypeInferenceError(msg), span, src.clone()))
                })?;
            let mut optimizer = aelys_opt::Optimizer::new(opt_level(opt));
            let typed = optimizer.optimize(inferred.program);
            let compiler = aelys_backend::Compiler::with_modules(
                None, src.clone(), aliases,
                vm.repl_known_globals().iter().cloned().collect(),
                vm.repl_known_native_globals().iter().cloned().collect(),
                vm.repl_symbol_origins().iter().map(|(k, v)| (k.clone(), v.clone())).collect(),
            );
            let (mut function, mut heap, _globals) = compiler.compile_typed(&typed)?;
            fn walk(f: &aelys_bytecode::Function, path: String, out: &mut CodeDump) {
                out.push((path.clone(), f.arity, f.num_registers, f.bytecode.as_slice().to_vec()));
                for (k, n) in f.nested_functions.iter().enumerate() { walk(n, format!("{}/{}", path, k), out); }
            }
            walk(&function, "main".into(), &mut code_ref.borrow_mut());
            let remap = vm.merge_heap(&mut heap).map_err(AelysError::Runtime)?;
            function.remap_constants(&remap);
            let func_ref = vm.alloc_function(function).map_err(AelysError::Runtime)?;
            let v = vm.execute(func_ref)?;
            let s = vm.value_to_string(v);
            Ok((v, s))
        }));
        let out = verif::sink_take();
        verif::budget_set(u64::MAX);
        verif::gc_mode_set(0, 0);
        (classify(r, out), code.into_inner())
    }

    /// Run one input on an existing VM (REPL session).
    #[cfg(vbxq_aelys_lang_verif)]
    pub fn run_on_vm(vm: &mut VM, source: &str, opt: u32, budget: u64) -> Outcome {
        use aelys_runtime::verif;
        verif::sink_install();
        verif::budget_set(budget);
        let r = crate::guarded(std::panic::AssertUnwindSafe(|| {
            let v = aelys_driver::run_with_vm_and_opt(vm, source, "<verif>", opt_level(opt))?;
            let s = vm.value_to_string(v);
            Ok((v, s))
        }));
        let out = verif::sink_take();
        verif::budget_set(u64::MAX);
        classify(r, out)
    }

    /// One-line, tab-free, escaped rendering used by all the line-oriented binaries.
    pub fn esc(s: &str) -> String {
        let mut o = String::new();
        for c in s.chars() {
            match c {
                '\\' => o.push_str("\\\\"),
                '\n' => o.push_str("\\n"),
                '\t' => o.push_str("\\t"),
                '\r' => o.push_str("\\r"),
                c if (c as u32) < 0x20 => o.push_str(&format!("\\x{:02x}", c as u32)),
                c => o.push(c),
            }
        }
        o
    }
    pub fn unesc(s: &str) -> String {
        let mut o = String::new();
        let mut it = s.chars();
        while let Some(c) = it.next() {
            if c != '\\' { o.push(c); continue; }
            match it.next() {
                Some('n') => o.push('\n'),
                Some('t') => o.push('\t'),
                Some('r') => o.push('\r'),
                Some('\\') => o.push('\\'),
                Some('x') => {
                    let h: String = it.by_ref().take(2).collect();
                    if let Ok(v) = u8::from_str_radix(&h, 16) { o.push(v as char); }
                }
                Some(c) => { o.push('\\'); o.push(c); }
                None => o.push('\\'),
            }
        }
        o
    }
}
