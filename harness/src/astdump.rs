// Dump aelys_sema typed ASTs as Coq terms of Model/Lang.v (included with #[path] by binaries).
use aelys_sema::{TypedExpr, TypedExprKind, TypedFmtStringPart, TypedFunction, TypedParam, TypedProgram, TypedStmt, TypedStmtKind};
use aelys_syntax::{BinaryOp, UnaryOp};

pub fn coq_string(s: &str) -> String {
    // printable ASCII goes into a Coq string literal; anything else through sb [bytes]
    if s.bytes().all(|b| (0x20..0x7f).contains(&b)) {
        format!("\"{}\"", s.replace('"', "\"\""))
    } else {
        let bs: Vec<String> = s.bytes().map(|b| b.to_string()).collect();
        format!("(sb [{}])", bs.join(";"))
    }
}

fn z(n: i64) -> String {
    if n < 0 { format!("({})", n) } else { n.to_string() }
}

fn binop(op: &BinaryOp) -> &'static str {
    match op {
        BinaryOp::Add => "BAdd", BinaryOp::Sub => "BSub", BinaryOp::Mul => "BMul", BinaryOp::Div => "BDiv",
        BinaryOp::Mod => "BMod", BinaryOp::Eq => "BEq", BinaryOp::Ne => "BNe", BinaryOp::Lt => "BLt",
        BinaryOp::Le => "BLe", BinaryOp::Gt => "BGt", BinaryOp::Ge => "BGe", BinaryOp::Shl => "BShl",
        BinaryOp::Shr => "BShr", BinaryOp::BitAnd => "BBitAnd", BinaryOp::BitOr => "BBitOr", BinaryOp::BitXor => "BBitXor",
    }
}
fn unop(op: &UnaryOp) -> &'static str {
    match op { UnaryOp::Neg => "UNeg", UnaryOp::Not => "UNot", UnaryOp::BitNot => "UBitNot" }
}

fn list(items: Vec<String>) -> String {
    format!("[{}]", items.join("; "))
}
fn params(ps: &[TypedParam]) -> String {
    list(ps.iter().map(|p| format!("({}, {})", coq_string(&p.name), p.mutable)).collect())
}

pub fn expr(e: &TypedExpr) -> String {
    match &e.kind {
        TypedExprKind::Int(n) => format!("(EInt {})", z(*n)),
        TypedExprKind::Float(f) => format!("(EFlt {})", f.to_bits()),
        TypedExprKind::Bool(b) => format!("(EBool {})", b),
        TypedExprKind::String(s) => format!("(EStr {})", coq_string(s)),
        TypedExprKind::Null => "ENull".to_string(),
        // the VM intrinsics (manual memory, type) are outside the evaluator's fragment: a program that
        // mentions one is discarded by the translation validation (levels are still compared with each other)
        TypedExprKind::Identifier(x) if matches!(x.as_str(), "alloc" | "free" | "load" | "store" | "type" | "__tostring") =>
            format!("(EOther {})", coq_string(x)),
        TypedExprKind::Identifier(x) => format!("(EVar {})", coq_string(x)),
        TypedExprKind::Binary { left, op, right } => format!("(EBin {} {} {})", binop(op), expr(left), expr(right)),
        TypedExprKind::Unary { op, operand } => format!("(EUn {} {})", unop(op), expr(operand)),
        TypedExprKind::And { left, right } => format!("(EAnd {} {})", expr(left), expr(right)),
        TypedExprKind::Or { left, right } => format!("(EOr {} {})", expr(left), expr(right)),
        TypedExprKind::Call { callee, args } => format!("(ECall {} {})", expr(callee), list(args.iter().map(expr).collect())),
        TypedExprKind::Assign { name, value } => format!("(EAssign {} {})", coq_string(name), expr(value)),
        TypedExprKind::Grouping(inner) => expr(inner),
        TypedExprKind::If { condition, then_branch, else_branch } => format!("(EIf {} {} {})", expr(condition), expr(then_branch), expr(else_branch)),
        TypedExprKind::FmtString(parts) => {
            let ps: Vec<String> = parts.iter().map(|p| match p {
                TypedFmtStringPart::Literal(s) => format!("PLit {}", coq_string(s)),
                TypedFmtStringPart::Expr(e) => format!("PExpr {}", expr(e)),
                TypedFmtStringPart::Placeholder => "PHole".to_string(),
            }).collect();
            format!("(EFmt {})", list(ps))
        }
        TypedExprKind::Lambda(inner) => expr(inner),
        TypedExprKind::LambdaInner { params: ps, body, .. } => format!("(ELam {} {})", params(ps), stmts(body)),
        TypedExprKind::Member { object, member } => format!("(EMember {} {})", expr(object), coq_string(member)),
        TypedExprKind::ArrayLiteral { elements, .. } => format!("(EArr {})", list(elements.iter().map(expr).collect())),
        TypedExprKind::VecLiteral { elements, .. } => format!("(EVec {})", list(elements.iter().map(expr).collect())),
        TypedExprKind::ArraySized { size, .. } => format!("(EArrSized {})", expr(size)),
        TypedExprKind::Index { object, index } => format!("(EIdx {} {})", expr(object), expr(index)),
        TypedExprKind::IndexAssign { object, index, value } => format!("(EIdxSet {} {} {})", expr(object), expr(index), expr(value)),
        TypedExprKind::Range { .. } => "(EOther \"range\")".to_string(),
        TypedExprKind::Slice { .. } => "(EOther \"slice\")".to_string(),
        TypedExprKind::StructLiteral { .. } => "(EOther \"struct\")".to_string(),
        TypedExprKind::Cast { .. } => "(EOther \"cast\")".to_string(),
    }
}

pub fn function(f: &TypedFunction) -> String {
    let decs: Vec<String> = f.decorators.iter().map(|d| coq_string(&d.name)).collect();
    format!("(SFun {} {} {} {})", coq_string(&f.name), params(&f.params), stmts(&f.body), list(decs))
}

pub fn stmt(s: &TypedStmt) -> String {
    match &s.kind {
        TypedStmtKind::Expression(e) => format!("(SExpr {})", expr(e)),
        TypedStmtKind::Let { name, mutable, initializer, .. } => format!("(SLet {} {} {})", coq_string(name), mutable, expr(initializer)),
        TypedStmtKind::Block(b) => format!("(SBlock {})", stmts(b)),
        TypedStmtKind::If { condition, then_branch, else_branch } => format!(
            "(SIf {} {} {})", expr(condition), stmt(then_branch),
            match else_branch { Some(e) => format!("(Some {})", stmt(e)), None => "None".to_string() }),
        TypedStmtKind::While { condition, body } => format!("(SWhile {} {})", expr(condition), stmt(body)),
        TypedStmtKind::For { iterator, start, end, inclusive, step, body } => format!(
            "(SFor {} {} {} {} {} {})", coq_string(iterator), expr(start), expr(end), inclusive,
            match step.as_ref() { Some(e) => format!("(Some {})", expr(e)), None => "None".to_string() }, stmt(body)),
        TypedStmtKind::ForEach { iterator, iterable, body, .. } => format!("(SForEach {} {} {})", coq_string(iterator), expr(iterable), stmt(body)),
        TypedStmtKind::Return(None) => "(SRet None)".to_string(),
        TypedStmtKind::Return(Some(e)) => format!("(SRet (Some {}))", expr(e)),
        TypedStmtKind::Break => "SBreak".to_string(),
        TypedStmtKind::Continue => "SCont".to_string(),
        TypedStmtKind::Function(f) => function(f),
        TypedStmtKind::Needs(_) => "(SOther \"needs\")".to_string(),
        TypedStmtKind::StructDecl { .. } => "(SOther \"struct\")".to_string(),
    }
}

pub fn stmts(ss: &[TypedStmt]) -> String {
    list(ss.iter().map(stmt).collect())
}

pub fn program(p: &TypedProgram) -> String {
    stmts(&p.stmts)
}
